"""E6 - virtual-time asyncio event loop explorer (DESIGN 3.7).

VLoop is a BaseEventLoop with a virtual clock and its own run loop that pops _ready/_scheduled by hand: one step = one
callback; when nothing is ready the clock jumps to the next timer.  A hook runs before every step and before every clock
jump, which is where the explorer injects an external close().  Stock Task/Event/wait/sleep/Queue run unmodified."""
from __future__ import annotations

import asyncio
import datetime as _dt
import heapq
import types
from asyncio import events

EPOCH = _dt.datetime(2020, 1, 1)


class VLoop(asyncio.BaseEventLoop):
    def __init__(self) -> None:
        super().__init__()
        assert hasattr(self, "_ready") and hasattr(self, "_scheduled"), "asyncio internals changed"
        self._vt = 0.0
        self.step = 0
        self.hook = None
        self._clock_resolution = 1e-9

    def time(self) -> float:
        return self._vt

    def _process_events(self, ev) -> None:  # no selector
        pass

    def _write_to_self(self) -> None:
        pass

    def run_steps(self, max_steps: int, horizon: float) -> str:
        events._set_running_loop(self)
        try:
            while self.step < max_steps:
                while self._scheduled and self._scheduled[0]._cancelled:
                    h = heapq.heappop(self._scheduled)
                    h._scheduled = False
                if not self._ready:
                    if not self._scheduled:
                        return "idle"
                    when = self._scheduled[0]._when
                    if when > horizon:
                        return "horizon"
                    if self.hook:
                        self.hook(self.step, "advance")  # the environment may act just before time advances
                    if self._ready:
                        continue
                    self._vt = max(self._vt, when)
                    while self._scheduled and self._scheduled[0]._when <= self._vt + self._clock_resolution:
                        h = heapq.heappop(self._scheduled)
                        h._scheduled = False
                        if not h._cancelled:
                            self._ready.append(h)
                    continue
                if self.hook:
                    self.hook(self.step, "handle")
                h = self._ready.popleft()
                self.step += 1
                if not h._cancelled:
                    h._run()
            return "max_steps"
        finally:
            events._set_running_loop(None)


class FakeTransport(asyncio.BaseTransport):
    """Behaves like a real transport: close() schedules exactly one connection_lost(None); a loss calls
    connection_lost(exc) once."""

    def __init__(self, loop, log, n) -> None:
        super().__init__()
        self.loop = loop
        self.log = log
        self.n = n
        self.closed = False
        self.lost = False
        self.protocol = None

    def close(self) -> None:
        if not self.closed:
            self.closed = True
            self.log.append(("transport_close", self.n, self.loop.time(), self.loop.step))
            if not self.lost:
                self.lost = True
                self.loop.call_soon(self.protocol.connection_lost, None)

    def is_closing(self) -> bool:
        return self.closed

    def lose(self, exc) -> None:
        if not self.lost and not self.closed:
            self.lost = True
            self.log.append(("lost", self.n, self.loop.time(), self.loop.step))
            self.protocol.connection_lost(exc)


class Scenario:
    """One run of ConnectionManager.connect_loop() against a scripted environment.

    script: list of (kind, delay, lifetime): kind 'S'/'F', delay seconds before the outcome, lifetime None (stays up)
    or seconds until the connection is lost.  After the script is exhausted the factory parks forever."""

    def __init__(self, script, close_step=None, threshold=None, sleep_sec=None, max_delay=None, horizon=400.0, max_steps=5000,
                 watch=None, epoch=None, twin_failures=0) -> None:
        import han.meter_connection as mc

        self.twin_attempts = 0
        if twin_failures:
            self._run_twin(mc, twin_failures)

        self.mc = mc
        self.script = list(script)
        self.close_step = close_step
        self.horizon = horizon
        self.max_steps = max_steps
        self.log = []
        self.tasks_trace = []
        self.problems = []
        self.watch = watch
        loop = self.loop = VLoop()
        asyncio.set_event_loop(loop)
        ep = epoch or EPOCH  # UTC reading of the wall clock at loop time 0
        ep_ts = ep.replace(tzinfo=_dt.timezone.utc).timestamp()
        if hasattr(mc, "datetime"):
            class VDT:  # the hook the property names: the manager's wall clock reads the virtual clock
                @staticmethod
                def utcnow():
                    return ep + _dt.timedelta(seconds=loop.time())

                @staticmethod
                def now(tz=None):
                    return _dt.datetime.fromtimestamp(ep_ts + loop.time(), tz)  # local time of the process if tz is None

                @staticmethod
                def today():
                    return _dt.datetime.fromtimestamp(ep_ts + loop.time())

                def __getattr__(self, name):
                    return getattr(_dt.datetime, name)
            mc.datetime = types.SimpleNamespace(datetime=VDT, timedelta=_dt.timedelta, timezone=_dt.timezone)
            self.wall_is_virtual = True
        else:
            self.wall_is_virtual = False
        self.n_attempts = 0
        self.inflight = 0
        self.live = set()
        self.closed_at = None
        self.transports = []
        self.mgr = mc.ConnectionManager(self._factory)
        if threshold is not None:
            self.mgr.connection_lost_back_off_threshold = threshold
        if sleep_sec is not None:
            self.mgr.connection_lost_back_off_sleep_sec = sleep_sec
        if max_delay is not None:
            self.mgr.back_off_connect_error.max_delay = max_delay
        self.max_tasks = 0

    def _run_twin(self, mc, k: int) -> None:
        """Another ConnectionManager of the same process, with settings of its own, whose meter was unreachable: k failed
        attempts, then close().  What it went through must not show in the manager under test."""
        tl = VLoop()
        asyncio.set_event_loop(tl)
        n = [0]

        async def refused():
            n[0] += 1
            raise OSError("connection refused")

        twin = mc.ConnectionManager(refused)
        twin.back_off_connect_error.max_delay = 3
        twin.connection_lost_back_off_threshold = 1
        twin.connection_lost_back_off_sleep_sec = 1

        def hook(step, kind):
            if n[0] >= k:
                twin.close()
        tl.hook = hook
        task = tl.create_task(twin.connect_loop())
        tl.run_steps(4000, 10_000.0)
        self.twin_attempts = n[0]
        for t in asyncio.all_tasks(tl):
            t.cancel()
        tl.hook = None
        try:
            tl.run_steps(tl.step + 200, 10**12)
        except BaseException:  # noqa: BLE001
            pass
        tl.close()
        del task

    async def _factory(self):
        loop = self.loop
        i = self.n_attempts
        self.n_attempts += 1
        self.log.append(("attempt", i, loop.time(), loop.step))
        if self.live:
            self.problems.append(f"attempt #{i} started while transport(s) {sorted(self.live)} are still live")
        if self.inflight:
            self.problems.append(f"attempt #{i} started while another attempt is in flight")
        if self.closed_at is not None:
            self.problems.append(f"attempt #{i} started at t={loop.time()} after close() (t={self.closed_at})")
        if i >= len(self.script):
            self.inflight += 1
            try:
                await asyncio.sleep(10**9)  # script exhausted: park
            finally:
                self.inflight -= 1
        kind, delay, life = self.script[i]
        self.inflight += 1
        try:
            if delay:
                await asyncio.sleep(delay)
        finally:
            self.inflight -= 1
        if kind == "F":
            self.log.append(("fail", i, loop.time(), loop.step))
            raise OSError("connection refused")
        t = FakeTransport(loop, self.log, i)
        p = self.mc.SmartMeterMessageProtocol(asyncio.Queue(), [])
        t.protocol = p
        p.connection_made(t)
        self.transports.append(t)
        self.log.append(("connected", i, loop.time(), loop.step))
        if life is not None:
            loop.call_later(life, t.lose, OSError("connection dropped"))
        return t, p

    def _hook(self, step, kind) -> None:
        self.live = {t.n for t in self.transports if not t.closed and not t.lost}
        if len(self.live) > 1:
            self.problems.append(f"{len(self.live)} live transports at step {step}")
        nt = sum(1 for t in asyncio.all_tasks(self.loop) if not t.done())
        if nt > self.max_tasks:
            self.max_tasks = nt
        if self.watch:
            self.watch(self, step, nt)
        if self.close_step is not None and step == self.close_step and self.closed_at is None:
            self.closed_at = self.loop.time()
            self.log.append(("close", None, self.loop.time(), step))
            self.mgr.close()

    def run(self):
        loop = self.loop
        loop.hook = self._hook
        main = loop.create_task(self.mgr.connect_loop())
        main.add_done_callback(lambda f: self.log.append(("loop_done", None, loop.time(), loop.step)))
        self.main = main
        self.result = loop.run_steps(self.max_steps, self.horizon)
        self.live = {t.n for t in self.transports if not t.closed and not t.lost}
        self.pending = sum(1 for t in asyncio.all_tasks(loop) if not t.done())
        return self

    def state_digest(self):
        """For reporting distinct explored states only (never used to prune)."""
        m = self.mgr
        tasks = []
        for t in asyncio.all_tasks(self.loop):
            if t.done():
                continue
            co = t.get_coro()
            fr = getattr(co, "cr_frame", None)
            tasks.append((getattr(co, "__qualname__", "?"), fr.f_lasti if fr else -1))
        timers = sorted(round(h._when - self.loop.time(), 6) for h in self.loop._scheduled if not h._cancelled)
        return (m._connection is None, m._is_closing.is_set(), getattr(m, "_connection_lost_sleep_before_reconnect", None),
                m.back_off_connect_error.current_delay_sec, tuple(sorted(tasks)), tuple(timers), self.n_attempts, len(self.loop._ready))

    def cleanup(self) -> None:
        # cancel what is left so that no 'Task was destroyed but it is pending' noise is produced
        for t in asyncio.all_tasks(self.loop):
            t.cancel()
        try:
            self.loop.run_steps(self.loop.step + 200, 10**12)
        except BaseException:  # noqa: BLE001
            pass
        self.loop.close()
