"""Shared infrastructure of the amshan explorers: partial results, violation bookkeeping,
known findings, evidence files, replay files.  (DESIGN.md section 3.9 / 3.10)"""
from __future__ import annotations

import hashlib
import json
import os
import sys
import time

_real_time = time.time  # bound before mc/vclock.py replaces the functions of the time module

VERIF = os.path.dirname(os.path.dirname(os.path.abspath(__file__)))
REPO = os.environ.get("VERIF_REPO", "/repo")
# scratch runs against a mutated copy of the tree (mc/seedtest.py) must not overwrite the committed evidence
OUT = os.environ.get("VERIF_OUT", VERIF)

MAX_PER_KIND = 20  # fail fast: per worker and kind, keep at most this many violations
MAX_REPORTED = 8  # VIOLATION lines (with replay files) printed per run


def setup_repo_import() -> None:
    """Import han from /repo's working tree, never from an installed copy."""
    if sys.path[0] != REPO:
        sys.path.insert(0, REPO)
    set_logging("off")
    import han  # noqa: F401

    got = os.path.dirname(os.path.dirname(os.path.abspath(han.__file__)))
    if os.path.realpath(got) != os.path.realpath(REPO):
        raise SystemExit(f"han imported from {got}, expected {REPO}")
    from mc import cover, vclock

    cover.start(REPO)
    vclock.install()
    import importlib

    for name in ("hdlc", "dlde", "autodecoder", "common", "fastframecheck", "obis"):  # (meter_connection gets its own virtual clock in mc/vloop.py)
        try:
            vclock.shim_module(importlib.import_module("han." + name))
        except Exception:  # noqa: BLE001
            pass


class _Sink:
    """A logging handler that formats every record (so that every log argument is evaluated) and keeps nothing."""

    def __new__(cls):
        import logging

        class Sink(logging.Handler):
            def emit(self, record):
                try:  # as logging.StreamHandler does: an error while formatting is the handler's problem, never the caller's
                    self.last = self.format(record)
                except Exception:  # noqa: BLE001
                    self.format_errors = getattr(self, "format_errors", 0) + 1

        h = Sink(level=logging.DEBUG)
        h.setFormatter(logging.Formatter("%(asctime)s %(name)s %(levelname)s %(module)s: %(message)s"))
        return h


_sink = None
LOG_MODE = "off"


def set_logging(mode: str) -> None:
    """'off': logging disabled (as a library user who never configures logging would see it, minus stderr output);
    'debug': the han loggers at DEBUG with a handler that formats every record - the configuration of the repository's
    own reader_async.py / main_mqtt.py.  Explorations alternate between the two per task (mc/par.py)."""
    import logging

    global _sink, LOG_MODE
    root = logging.getLogger("han")
    if mode == "debug":
        logging.disable(logging.NOTSET)
        if _sink is None:
            _sink = _Sink()
        if _sink not in root.handlers:
            root.addHandler(_sink)
        root.setLevel(logging.DEBUG)
        root.propagate = False
        logging.raiseExceptions = True
    else:
        if _sink is not None and _sink in root.handlers:
            root.removeHandler(_sink)
        root.setLevel(logging.NOTSET)
        logging.disable(logging.CRITICAL)
    LOG_MODE = mode


FAILFAST = bool(os.environ.get("VERIF_FAILFAST"))
TIME_CAP = float(os.environ.get("VERIF_TIME_CAP", "0") or 0)
AMBIENT = {"lowprec": False, "dst_zone": False}


def set_ambient(lowprec: bool, dst_zone: bool) -> None:
    """Process-wide settings an embedding application may legitimately have changed: the precision of the thread's decimal
    context (28 by default, 6 here) and the time zone of the process (UTC, or a zone with daylight saving time)."""
    import decimal
    import time as _t

    decimal.getcontext().prec = 6 if lowprec else 28
    want = "CET-1CEST,M3.5.0,M10.5.0/3" if dst_zone else "UTC"
    if os.environ.get("TZ") != want:
        os.environ["TZ"] = want
        _t.tzset()
    AMBIENT["lowprec"], AMBIENT["dst_zone"] = lowprec, dst_zone


def hx(b) -> str:
    return bytes(b).hex()


class Part:
    """Partial result of one worker (or of the parent); merged by addition / union."""

    def __init__(self) -> None:
        self.c: dict[str, int] = {}  # counters
        self.o: dict[str, int] = {}  # distinct observed outcome classes -> count
        self.v: list[dict] = []  # violations
        self.vk: dict[str, int] = {}  # violations per kind (all, also those not kept)
        self.d: set = set()  # state digests
        self.nt: set = set()  # digests of distinct non-trivial cases
        self.s: list = []  # samples
        self.capped: bool = False
        self.mx: dict[str, int] = {}  # maxima (merged by max)
        self.cov: set = set()  # (file, line) of han/ executed (mc/cover.py)

    def add(self, name: str, n: int = 1) -> None:
        self.c[name] = self.c.get(name, 0) + n

    def out(self, name: str, n: int = 1) -> None:
        self.o[name] = self.o.get(name, 0) + n

    def full(self, kind: str) -> bool:
        """True when enough violations of this kind were collected (fail fast)."""
        return self.vk.get(kind, 0) >= MAX_PER_KIND

    def viol(self, kind: str, key: str, what: str, case: dict, size: int = 0) -> None:
        n = self.vk.get(kind, 0)
        self.vk[kind] = n + 1
        if n < MAX_PER_KIND:
            self.v.append({"kind": kind, "key": key, "what": what, "case": case, "size": size})

    def sample(self, x, cap: int = 3) -> None:
        if len(self.s) < cap:
            self.s.append(x)

    def merge(self, other: "Part") -> None:
        for k, n in other.c.items():
            self.c[k] = self.c.get(k, 0) + n
        for k, n in other.o.items():
            self.o[k] = self.o.get(k, 0) + n
        for k, n in other.vk.items():
            self.vk[k] = self.vk.get(k, 0) + n
        self.v.extend(other.v)
        self.d |= other.d
        self.nt |= other.nt
        for x in other.s:
            if len(self.s) < 12:
                self.s.append(x)
        self.capped = self.capped or other.capped
        for k, n in other.mx.items():
            if n > self.mx.get(k, 0):
                self.mx[k] = n
        self.cov |= other.cov


def load_known() -> list[dict]:
    path = os.path.join(VERIF, "KNOWN_FINDINGS.json")
    if not os.path.exists(path):
        return []
    with open(path) as fh:
        return json.load(fh).get("findings", [])


class Run:
    """One invocation of one check."""

    def __init__(self, pid: str, tier: str, seed: int) -> None:
        self.pid = pid
        self.tier = tier
        self.seed = seed
        self.t0 = _real_time()
        self.total = Part()
        self.level = "model_checking"
        self.rule = ""
        self.bounds: dict = {}
        self.assumptions: list[str] = []
        self.exhaustive = True
        self.extra: dict = {}
        self.notes: list[str] = []

    # -- shortcuts -----------------------------------------------------------
    @property
    def quick(self) -> bool:
        return self.tier == "quick"

    def merge(self, parts) -> None:
        for p in parts:
            self.total.merge(p)
        if FAILFAST and self.total.v:
            # evaluation of seeded changes / mutants only (never set by a registered command): stop at the first phase
            # that reports a violation
            self.exhaustive = False
            self.notes.append("VERIF_FAILFAST: stopped after the first phase with a violation")
            sys.exit(self.finish(0, 0, 0, 0, 0))
        if TIME_CAP and _real_time() - self.t0 > TIME_CAP:
            # mutation triage only (never set by a registered command): give up after the phase that crosses the cap
            self.exhaustive = False
            self.notes.append(f"VERIF_TIME_CAP: stopped after {_real_time() - self.t0:.0f} s")
            sys.exit(self.finish(0, 0, 0, 0, 0))

    def log(self, msg: str) -> None:
        print(f"[{self.pid} {_real_time() - self.t0:6.1f}s] {msg}", flush=True)

    def _line_coverage(self) -> dict:
        """Which lines of the files the property is anchored in were executed by this run (evidence, not a verdict)."""
        from mc import cover

        self.total.cov |= set(cover.take_new())
        try:
            files = None
            with open(os.path.join(VERIF, "properties.jsonl")) as fh:
                for line in fh:
                    pr = json.loads(line)
                    if pr["id"] == self.pid:
                        files = [os.path.basename(f) for f in pr["anchors"]["files"] if f.endswith(".py") and "/tests/" not in f and not f.startswith("tests")]
            exe = cover.executable_lines(REPO)
        except Exception as ex:  # noqa: BLE001
            return {"error": repr(ex)}
        hit = {}
        for f, ln in self.total.cov:
            hit.setdefault(f, set()).add(ln)
        out = {}
        for f in sorted(files or exe):
            if f not in exe:
                continue
            e = exe[f]
            h = hit.get(f, set()) & e
            out[f] = {"executable": len(e), "executed": len(h), "not_executed": cover.ranges(e - h)[:400]}
        return out

    # -- finishing -----------------------------------------------------------
    def finish(self, states: int, transitions: int, traces: int, evaluations: int,
               distinct_nontrivial: int) -> int:
        tot = self.total
        known = [k for k in load_known() if k.get("property") == self.pid]
        open_keys = {k["key"]: k for k in known if k.get("status") == "open"}
        viols = sorted(tot.v, key=lambda v: (v["size"], v["kind"], v["key"]))
        seen_keys = set()
        unknown = []
        known_hit = {}
        for v in viols:
            if v["key"] in seen_keys:
                continue
            seen_keys.add(v["key"])
            if v["key"] in open_keys:
                known_hit[v["key"]] = open_keys[v["key"]]
            else:
                unknown.append(v)
        for key, k in sorted(known_hit.items()):
            print(f"KNOWN-FINDING: property={self.pid} {k.get('what', key)}")
        rdir = os.path.join(OUT, "replays", self.pid)
        reported = 0
        for v in unknown:
            if reported >= MAX_REPORTED:
                break
            os.makedirs(rdir, exist_ok=True)
            body = {"property": self.pid, "kind": v["kind"], "key": v["key"], "what": v["what"],
                    "case": v["case"]}
            dig = hashlib.blake2b(json.dumps(body, sort_keys=True).encode(), digest_size=6).hexdigest()
            path = os.path.join(rdir, f"{v['kind']}-{dig}.json")
            with open(path, "w") as fh:
                json.dump(body, fh, indent=1, sort_keys=True)
            print(f"VIOLATION property={self.pid} replay={path}")
            print(f"   kind={v['kind']} {v['what']}")
            reported += 1
        nviol_total = sum(tot.vk.values())
        if unknown:
            print(f"[{self.pid}] {len(unknown)} distinct unlisted violation(s) kept "
                  f"({nviol_total} raised in total, by kind: {dict(sorted(tot.vk.items()))})")
        wall = _real_time() - self.t0
        cov = {
            "states": states,
            "transitions": transitions,
            "traces_validated_against_impl": traces,
            "evaluations": evaluations,
            "distinct_nontrivial": distinct_nontrivial,
            "rule": self.rule,
            "samples": tot.s[:8] if tot.s else ["(no sample recorded)"],
            "exhaustive": bool(self.exhaustive and not tot.capped and not unknown),
            "bounds": self.bounds,
            "counters": dict(sorted(tot.c.items())),
            "distinct_outcomes": dict(sorted(tot.o.items())),
            "violations_by_kind": dict(sorted(tot.vk.items())),
            "maxima": dict(sorted(tot.mx.items())),
            "known_findings_hit": sorted(known_hit),
        }
        cov["implementation_line_coverage"] = self._line_coverage()
        cov.update(self.extra)
        if self.notes:
            cov["notes"] = self.notes
        ev = {
            "property_id": self.pid,
            "tier": self.tier,
            "seed": self.seed,
            "level": self.level,
            "coverage": cov,
            "assumptions": self.assumptions,
            "wall_s": round(wall, 2),
            "violations": len(unknown),
        }
        os.makedirs(os.path.join(OUT, "evidence"), exist_ok=True)
        tmp = os.path.join(OUT, "evidence", f".{self.pid}.json.tmp")
        with open(tmp, "w") as fh:
            json.dump(ev, fh, indent=1, sort_keys=True)
        os.replace(tmp, os.path.join(OUT, "evidence", f"{self.pid}.json"))
        print(f"[{self.pid}] tier={self.tier} seed={self.seed} states={states} transitions={transitions} "
              f"executions={traces} evaluations={evaluations} nontrivial={distinct_nontrivial} "
              f"outcomes={len(tot.o)} violations={len(unknown)} known={len(known_hit)} wall={wall:.1f}s")
        return 1 if unknown else 0
