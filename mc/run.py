"""./check <id> --tier quick|thorough   |   ./check <id> --replay <file>"""
from __future__ import annotations

import argparse
import importlib
import json
import os
import sys

HERE = os.path.dirname(os.path.abspath(__file__))
sys.path.insert(0, os.path.dirname(HERE))  # /verif  -> package "mc"


def main() -> int:
    ap = argparse.ArgumentParser()
    ap.add_argument("pid")
    ap.add_argument("--tier", default=os.environ.get("VERIF_TIER", "quick"), choices=["quick", "thorough"])
    ap.add_argument("--replay")
    args = ap.parse_args()
    try:
        seed = int(os.environ.get("VERIF_SEED", "0"))
    except ValueError:
        seed = 0
    import resource

    try:  # backstop: a runaway exploration must kill this check, not the machine (workers have their own 6 GiB limit)
        resource.setrlimit(resource.RLIMIT_AS, (32 << 30, 32 << 30))
    except (ValueError, OSError):
        pass
    from mc import core

    core.setup_repo_import()
    mod = importlib.import_module(f"mc.props.{args.pid}")
    if args.replay:
        with open(args.replay) as fh:
            body = json.load(fh)
        if body["case"].get("kind") == "exception":
            print(body["case"].get("traceback", ""))
            print("recorded crash of an explorer task; re-run the check to reproduce")
            print(f"VIOLATION property={args.pid} replay={os.path.abspath(args.replay)}")
            return 1
        if body["case"].get("kind") == "hang":
            from mc import par

            try:
                inner = json.loads(body["case"].get("case") or "")
            except ValueError:
                inner = None
            if not isinstance(inner, dict):
                print("recorded hang of an explorer task without a published case; re-run the check to reproduce")
                print(f"VIOLATION property={args.pid} replay={os.path.abspath(args.replay)}")
                return 1
            verdict = par.run_with_deadline(lambda: mod.replay(inner), par.CASE_LIMIT)
            print(json.dumps({"property": args.pid, "kind": "hang", "case": inner, "observed": verdict}, indent=1))
            if verdict == "timeout":
                print(f"VIOLATION property={args.pid} replay={os.path.abspath(args.replay)}")
                return 1
            body["case"] = inner
        msgs = mod.replay(body["case"])
        print(json.dumps({"property": args.pid, "kind": body.get("kind"), "case": body["case"],
                          "observed": msgs}, indent=1, default=str))
        if msgs:
            print(f"VIOLATION property={args.pid} replay={os.path.abspath(args.replay)}")
            return 1
        print(f"[{args.pid}] replay: property holds on this case")
        return 0
    from mc import par

    if par.TASK_LIMIT is None:
        par.TASK_LIMIT = 1800.0 if args.tier == "quick" else 6 * 3600.0
    run = core.Run(args.pid, args.tier, seed)
    return mod.main(run)


if __name__ == "__main__":
    sys.exit(main())
