"""Line coverage of the implementation under test by an exploration (evidence of non-vacuity, never a verdict).

Uses sys.monitoring (CPython 3.12): a LINE event is recorded once per (code object, line) and then disabled for that
location, so the overhead after warm-up is nil.  Workers hand the newly covered lines back with every partial result."""
from __future__ import annotations

import os
import sys

TOOL = 3  # a free tool id (sys.monitoring.PROFILER_ID is 2, debuggers 0, coverage 1)
_seen: set = set()
_new: list = []
_prefix = None
_on = False


def start(repo: str) -> None:
    global _prefix, _on
    if _on or not hasattr(sys, "monitoring") or os.environ.get("VERIF_NOCOVER"):
        return
    _prefix = os.path.join(os.path.realpath(repo), "han") + os.sep
    mon = sys.monitoring
    try:
        mon.use_tool_id(TOOL, "verif-cover")
    except ValueError:
        return

    def on_line(code, line):
        fn = code.co_filename
        if fn.startswith(_prefix):
            key = (fn[len(_prefix):], line)
            if key not in _seen:
                _seen.add(key)
                _new.append(key)
        return mon.DISABLE

    mon.register_callback(TOOL, mon.events.LINE, on_line)
    mon.set_events(TOOL, mon.events.LINE)
    _on = True


def take_new() -> list:
    """Lines covered since the last call (in this process)."""
    global _new
    out, _new = _new, []
    return out


def executable_lines(repo: str) -> dict:
    """file -> set of line numbers that carry code (from the compiled code objects), docstrings excluded."""
    out = {}
    base = os.path.join(repo, "han")
    for name in sorted(os.listdir(base)):
        if not name.endswith(".py"):
            continue
        path = os.path.join(base, name)
        try:
            with open(path) as fh:
                code = compile(fh.read(), path, "exec")
        except SyntaxError:
            continue
        lines = set()
        stack = [code]
        while stack:
            c = stack.pop()
            for _, _, ln in c.co_lines():
                if ln is not None and ln > 0:
                    lines.add(ln)
            stack.extend(k for k in c.co_consts if hasattr(k, "co_lines"))
        out[name] = lines
    return out


def ranges(nums) -> str:
    nums = sorted(nums)
    out = []
    i = 0
    while i < len(nums):
        j = i
        while j + 1 < len(nums) and nums[j + 1] == nums[j] + 1:
            j += 1
        out.append(str(nums[i]) if i == j else f"{nums[i]}-{nums[j]}")
        i = j + 1
    return ",".join(out)
