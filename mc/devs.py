"""E3 - deviation-bounded exploration (DESIGN 3.4): all streams within <= k edits of a well-formed base
stream.  An edit is one substitution from a small value set, one deletion, one insertion, or the truncation
of the rest of the current message."""
from __future__ import annotations

HDLC_SUBS = (0x7E, 0x7D, 0x5E, 0x5D, 0x00, 0xFF)
HDLC_INS = (0x7E, 0x7D, 0x00)
P1_SUBS = (0x2F, 0x21, 0x0A, 0x0D, 0x28, 0x29, 0x2A, 0x80)
P1_INS = (0x2F, 0x21, 0x0A)


def one_edits(S: bytes, subs, ins, spans=(), start: int = 0, positions=None):
    """Yield (description, edited stream) for every single edit at position >= start.

    spans: (begin, end) of the messages inside S; truncation removes S[i:end] for begin < i < end.
    positions: optional iterable restricting the edit positions (for very long streams)."""
    n = len(S)
    pos = range(start, n) if positions is None else [p for p in positions if start <= p < n]
    for i in pos:
        b = S[i]
        vals = []
        for x in tuple(subs) + (b ^ 0x01, b ^ 0x20, b ^ 0x80):
            if x != b and x not in vals:
                vals.append(x)
        for x in vals:
            yield ("sub", i, x), S[:i] + bytes((x,)) + S[i + 1:]
        yield ("del", i), S[:i] + S[i + 1:]
    ipos = range(start, n + 1) if positions is None else [p for p in positions if start <= p <= n]
    for i in ipos:
        for x in ins:
            yield ("ins", i, x), S[:i] + bytes((x,)) + S[i:]
    for (a, e) in spans:
        tpos = range(max(a + 1, start), e) if positions is None else [p for p in positions if max(a + 1, start) <= p < e]
        for i in tpos:
            yield ("trunc", i, e), S[:i] + S[e:]


def edits_upto(S: bytes, k: int, subs, ins, spans=(), positions=None, shard=(0, 1)):
    """All distinct streams within <= k edits of S (k in 0..2), each once, with the edit list.

    shard=(i, n) splits the work over n tasks: shard 0 yields the 0- and 1-edit streams, and the two-edit
    streams that extend the j-th one-edit stream are yielded by shard j % n (a two-edit stream reachable from
    first edits in different shards is then yielded by each of them - duplicates only cost time)."""
    si, sn = shard
    seen = {S}
    if si == 0:
        yield (), S
    if k < 1:
        return
    level1 = []
    for d, T in one_edits(S, subs, ins, spans, 0, positions):
        if T not in seen:
            seen.add(T)
            level1.append((d, T))
            if si == 0:
                yield (d,), T
    if k < 2:
        return
    for j, (d1, T) in enumerate(level1):
        if j % sn != si:
            continue
        # second edit at or after the first one's position (edits commute otherwise); spans are not
        # recomputed for the edited stream, so second edits are substitutions/deletions/insertions only
        for d2, U in one_edits(T, subs, ins, (), d1[1], positions):
            if U not in seen:
                seen.add(U)
                yield (d1, d2), U
