"""Shared pieces of the P1 (IEC 62056-21 mode D) explorers: driving the real ModeDReader, observations,
readout pool, the C04 oracle evaluated on one DataReadout object."""
from __future__ import annotations

from mc.ref import p1 as RP

LINES = [b"0-0:1.0.0(210222161900W)", b"1-0:1.8.0(00000896.020*kWh)", b"1-0:2.7.0(0000.020*kW)", b"1-0:32.7.0(230.1*V)",
         b"1-0:31.7.0(000.6*A)", b"1-0:3.7.0(0000.308*kVAr)"]


def new_reader():
    from han import dlde

    return dlde.ModeDReader()


def feed(chunks, reader=None):
    from mc.hdlcx import take

    r = reader or new_reader()
    out = []
    for c in chunks:
        out += take(r.read(c))
    return out, r


def obs(readouts):
    return tuple((m.as_bytes, m.is_valid) for m in readouts)


def readout_pool():
    """name -> readout bytes ('/' ... end line incl. its line end).  All well-formed."""
    return {
        "min_nocs": RP.build_readout(b"/ABC5xyz", [b"1.0(1)"], checksum=None, blank_after_ident=False),
        "min_crc": RP.build_readout(b"/ABC5xyz", [b"1.0(1)"], blank_after_ident=False),
        "nodata_crc": RP.build_readout(b"/KAM5", [], blank_after_ident=True),
        "lf_crc": RP.build_readout(b"/LGF5E360", LINES[:3], eol=b"\n"),
        "six_crc": RP.build_readout(b"/LGF5E360", LINES),
        "esc_ident": RP.build_readout(b"/ELL5\\253833635_A", LINES[:2]),
        "noid_nocs": RP.build_readout(b"/KAM5", LINES[:2], checksum=None),
        "lowman": RP.build_readout(b"/XMx5LGBBFFB231314239", LINES[:1]),
    }


def bind_fixtures() -> int:
    """The CRC placement of the reference must reproduce the captured readouts of tests/test_dlde.py."""
    import tests.test_dlde as td

    n = 0
    for name in ("EXAMPLE_DATA_A_LANDISGYR_360", "EXAMPLE_DATA_C", "EXAMPLE_DATA_D_LANDISGYR_360", "EXAMPLE_DATA_KAMSTRUP"):
        d = RP.dissect(getattr(td, name))
        assert d and d["is_checksum"] and d["sent"] == d["crc"] and d["ident_ok"], name
        n += 1
    d = RP.dissect(td.EXAMPLE_DATA_B)
    assert d and not d["is_checksum"] and d["ident_ok"]
    return n + 1


def touch_all(m) -> None:
    """Use every other public accessor first (a readout's answers must not depend on what was asked before)."""
    from han import dlde

    for f in (lambda: m.identification_line, lambda: m.expected_checksum, lambda: m.payload, lambda: m.end_line, lambda: m.data_lines,
              lambda: str(m), lambda: len(m), lambda: m.message_type, lambda: dlde.decode_p1_readout(m), lambda: dlde.parse_p1_readout(m)):
        try:
            f()
        except Exception:  # noqa: BLE001
            pass


def readout_errors_all_orders(m) -> list[tuple[str, str]]:
    """The C04 oracle on the object as it is, on a clone whose other accessors were used first, and asked twice."""
    from han import dlde

    errs = readout_errors(m)
    try:
        clone = dlde.DataReadout(m.as_bytes)
    except Exception:  # noqa: BLE001
        return errs
    touch_all(clone)
    errs += [(k, "after using the other accessors first: " + msg) for k, msg in readout_errors(clone)]
    errs += [(k, "asked a second time: " + msg) for k, msg in readout_errors(m)]
    return errs


def readout_errors(m, via: str = "") -> list[tuple[str, str]]:
    """C04's oracle on one DataReadout object (exceptions are C14's business: recorded as kind 'raises')."""
    B = m.as_bytes
    d = RP.dissect(B)
    errs = []
    if d is None:
        return [("dissect", f"as_bytes {B!r:.80} does not start with '/' or has no '!'")]
    try:
        v = m.is_valid
    except Exception as ex:  # noqa: BLE001
        return [("raises", f"is_valid raised {type(ex).__name__} for {B!r:.100}")]
    if v is True and d["line_end"] and d["line_end"]["sent"] != d["line_end"]["crc"]:
        le = d["line_end"]
        errs.append(("valid_bad_crc", f"reported valid although the end line carries checksum {le['trailer'].decode()} and the CRC16 of '/'..'!' of that line is {le['crc']:04X} "
                                       f"(an earlier '!' stands inside a data line): {B!r:.100}"))
    if v is True:
        if not d["ident_ok"] and not d["ident_dontcare"]:
            errs.append(("valid_bad_ident", f"reported valid but identification line {d['ident_line']!r} is not well-formed: {B!r:.100}"))
        if d["is_checksum"] and d["sent"] != d["crc"]:
            errs.append(("valid_bad_crc", f"reported valid but checksum {d['trailer'].decode()} != CRC16 {d['crc']:04X} of {B!r:.100}"))
        try:
            p = m.payload
        except Exception as ex:  # noqa: BLE001
            p = None
            errs.append(("raises", f"payload raised {type(ex).__name__}"))
        if p != d["payload"]:
            errs.append(("payload", f"payload {p!r:.60} != bytes between identification line and '!' {d['payload']!r:.60}"))
    elif v is False:
        if d["is_checksum"] and d["sent"] == d["crc"] and d["ascii"] and d["ident_ok"] and not d["ident_dontcare"]:
            errs.append(("invalid_good", f"correctly check-summed ASCII readout with well-formed identification reported invalid: {B!r:.100}"))
    else:
        errs.append(("valid_type", f"is_valid returned {v!r}"))
    return errs
