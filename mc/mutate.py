"""Mutation analysis of the checks (a measurement of the checks, not a check).

    python3 mc/mutate.py gen                      list the mutants of han/*.py  -> $MUT_DIR/mutants.jsonl
    python3 mc/mutate.py run [--files a.py,b.py] [--hours H] [--procs N] [--stride K --offset I]
    python3 mc/mutate.py report                   summary of $MUT_DIR/results.jsonl

A mutant is one small syntactic change of one expression or statement of the library (comparison and arithmetic
operators, boolean connectives, integer / boolean constants, negated conditions, deleted statements, returned values,
loop exits).  Every mutant is written to a scratch copy of /repo (never /repo itself), must compile, and is first given
to the repository's own test suite; only mutants that the 124 tests do NOT notice are interesting.  Those are run
against the quick tier of the checks anchored in the mutated file (VERIF_REPO / VERIF_OUT pointing to the scratch copy,
VERIF_FAILFAST=1), cheapest check first, until one reports a violation.  Survivors are either equivalent mutants,
changes of behaviour no listed property speaks about, or blind spots - they are triaged by hand (mutation/TRIAGE.md).
"""
from __future__ import annotations

import ast
import json
import os
import shutil
import subprocess
import sys
import tempfile
import time

VERIF = os.path.dirname(os.path.dirname(os.path.abspath(__file__)))
REPO = "/repo"
MUT_DIR = os.environ.get("MUT_DIR", "/root/scratch/mut")

# checks anchored in each file, cheapest / most specific first
RELEVANT = {
    "fastframecheck.py": ["C03", "C02", "C01"],
    "hdlc.py": ["C02", "C19", "C14", "C01", "C06", "C16", "C13"],
    "dlde.py": ["C05", "C11", "C04", "C19", "C14", "C15", "C16", "C13"],
    "aidon.py": ["C07", "C12", "C15"],
    "kaifa.py": ["C08", "C12", "C15"],
    "kamstrup.py": ["C09", "C12", "C15"],
    "cosem.py": ["C07", "C10", "C08", "C09", "C15"],
    "autodecoder.py": ["C12", "C15", "C11"],
    "obis.py": ["C20", "C07", "C11"],
    "obis_map.py": ["C07", "C08", "C09", "C11"],
    "common.py": ["C12", "C13", "C01", "C04"],
    "meter_connection.py": ["C17", "C18", "C13"],
}

# finer: (file, prefix of the qualified function name) -> checks, most specific first
BY_FUNC = [
    ("dlde.py", ("DataSetValue", "DataSet", "decode_p1", "_decode_parsed", "parse_p1", "_parse_p1", "_convert", "_get_"), ["C11", "C15", "C12", "C14"]),
    ("dlde.py", ("Ident",), ["C04", "C11", "C05", "C14"]),
    ("dlde.py", ("DataReadout",), ["C04", "C05", "C14", "C11", "C13"]),
    ("dlde.py", ("ModeDReader", "_ReaderBuffer"), ["C05", "C16", "C19", "C14", "C13"]),
    ("hdlc.py", ("HdlcFrameHeader", "HdlcFrame."), ["C01", "C02", "C06", "C13"]),
    ("hdlc.py", ("HdlcFrameReader", "_ReaderBuffer"), ["C02", "C06", "C16", "C19", "C14", "C01"]),
    ("meter_connection.py", ("SmartMeter", "MeterTransportProtocol", "ConnectionLost"), ["C13", "C14", "C17"]),
    ("meter_connection.py", ("ExponentialBackOff", "BackOffStrategy"), ["C18", "C17"]),
    ("meter_connection.py", ("ConnectionManager",), ["C17", "C18"]),
    ("cosem.py", ("DateTime", "_to_datetime"), ["C10", "C07", "C08", "C09"]),
]


def relevant(m):
    for f, prefixes, checks in BY_FUNC:
        if m["file"] == f and any(m["func"].startswith(p) for p in prefixes):
            return checks
    return RELEVANT[m["file"]]


CMP = {ast.Lt: ast.LtE, ast.LtE: ast.Lt, ast.Gt: ast.GtE, ast.GtE: ast.Gt, ast.Eq: ast.NotEq, ast.NotEq: ast.Eq,
       ast.Is: ast.IsNot, ast.IsNot: ast.Is, ast.In: ast.NotIn, ast.NotIn: ast.In}
CMP2 = {ast.Lt: ast.Gt, ast.Gt: ast.Lt, ast.LtE: ast.GtE, ast.GtE: ast.LtE}
BIN = {ast.Add: ast.Sub, ast.Sub: ast.Add, ast.Mult: ast.FloorDiv, ast.LShift: ast.RShift, ast.RShift: ast.LShift,
       ast.BitAnd: ast.BitOr, ast.BitOr: ast.BitAnd, ast.BitXor: ast.BitAnd, ast.Mod: ast.FloorDiv, ast.FloorDiv: ast.Mod, ast.Pow: ast.Mult}


def _is_logger_call(node) -> bool:
    return (isinstance(node, ast.Call) and isinstance(node.func, ast.Attribute) and isinstance(node.func.value, ast.Name)
            and node.func.value.id in ("_LOGGER", "logging", "LOGGER"))


class Gen(ast.NodeVisitor):
    def __init__(self, src: str, fname: str) -> None:
        self.src = src
        self.lines = src.splitlines(keepends=True)
        self.fname = fname
        self.out = []
        self.skip_depth = 0
        self.func = []

    # -- helpers ---------------------------------------------------------------------------------------------------
    def _off(self, lineno, col):
        # ast columns are utf-8 byte offsets; the sources are ASCII
        return sum(len(l) for l in self.lines[:lineno - 1]) + col

    def _emit(self, node, new_node_or_text, op, desc, paren=True):
        a, b = self._off(node.lineno, node.col_offset), self._off(node.end_lineno, node.end_col_offset)
        if isinstance(new_node_or_text, str):
            text = new_node_or_text
        else:
            text = ast.unparse(ast.fix_missing_locations(new_node_or_text))
            if paren:
                text = "(" + text + ")"
        if self.src[a:b] == text:
            return
        self.out.append({"file": self.fname, "line": node.lineno, "func": ".".join(self.func), "op": op, "desc": desc, "a": a, "b": b, "text": text,
                         "orig": self.src[a:b][:120]})

    def generic_visit(self, node):
        if _is_logger_call(node):
            return  # log texts and log arguments are not behaviour
        super().generic_visit(node)

    # -- scopes ----------------------------------------------------------------------------------------------------
    def visit_FunctionDef(self, node):
        self.func.append(node.name)
        # skip doc string
        body = node.body
        for st in body:
            if isinstance(st, ast.Expr) and isinstance(st.value, ast.Constant) and isinstance(st.value.value, str):
                continue
            self.visit(st)
        self.func.pop()

    visit_AsyncFunctionDef = visit_FunctionDef

    def visit_ClassDef(self, node):
        self.func.append(node.name)
        for st in node.body:
            if isinstance(st, ast.Expr) and isinstance(st.value, ast.Constant) and isinstance(st.value.value, str):
                continue
            self.visit(st)
        self.func.pop()

    def visit_AnnAssign(self, node):
        if node.value is not None:
            self.visit(node.value)
            if node.simple and self.func and not isinstance(node.value, ast.Constant):
                pass

    def visit_arguments(self, node):
        for d in list(node.defaults) + [d for d in node.kw_defaults if d is not None]:
            self.visit(d)

    # -- expressions -----------------------------------------------------------------------------------------------
    def visit_Compare(self, node):
        for i, op in enumerate(node.ops):
            for table, tag in ((CMP, "cmp"), (CMP2, "cmp-reverse")):
                t = table.get(type(op))
                if t:
                    new = ast.Compare(left=node.left, ops=node.ops[:i] + [t()] + node.ops[i + 1:], comparators=node.comparators)
                    self._emit(node, new, tag, f"{type(op).__name__} -> {t.__name__}")
        self.generic_visit(node)

    def visit_BoolOp(self, node):
        t = ast.Or if isinstance(node.op, ast.And) else ast.And
        self._emit(node, ast.BoolOp(op=t(), values=node.values), "bool", f"{type(node.op).__name__} -> {t.__name__}")
        for i in range(len(node.values)):
            if len(node.values) > 1:
                rest = node.values[:i] + node.values[i + 1:]
                new = rest[0] if len(rest) == 1 else ast.BoolOp(op=node.op, values=rest)
                self._emit(node, new, "bool-drop", f"drop operand {i} of {type(node.op).__name__}")
        self.generic_visit(node)

    def visit_UnaryOp(self, node):
        if isinstance(node.op, ast.Not):
            self._emit(node, node.operand, "not", "remove not")
        elif isinstance(node.op, ast.USub) and not isinstance(node.operand, ast.Constant):
            self._emit(node, node.operand, "neg", "remove unary minus")
        self.generic_visit(node)

    def visit_BinOp(self, node):
        t = BIN.get(type(node.op))
        if t and not (isinstance(node.op, ast.Mod) and isinstance(node.left, ast.Constant) and isinstance(node.left.value, str)):
            self._emit(node, ast.BinOp(left=node.left, op=t(), right=node.right), "arith", f"{type(node.op).__name__} -> {t.__name__}")
        self.generic_visit(node)

    def visit_Constant(self, node):
        v = node.value
        if isinstance(v, bool):
            self._emit(node, repr(not v), "const", f"{v} -> {not v}")
        elif isinstance(v, int):
            for w in (v + 1, v - 1):
                if w >= 0 or v <= 0:
                    self._emit(node, repr(w), "const", f"{v} -> {w}")
            if v not in (0, 1):
                self._emit(node, "0", "const", f"{v} -> 0")
        elif isinstance(v, bytes) and v:
            self._emit(node, repr(bytes([v[0] ^ 1]) + v[1:]), "const", f"{v!r}: first octet ^ 1")
            self._emit(node, repr(b""), "const", f"{v!r} -> b''")
        elif isinstance(v, str) and v and len(v) <= 12:
            self._emit(node, repr(v + "x"), "const", f"{v!r} -> {v + 'x'!r}")
        elif v is None:
            pass

    def visit_IfExp(self, node):
        self._emit(node.test, ast.UnaryOp(op=ast.Not(), operand=node.test), "cond", "negate condition of conditional expression")
        self.generic_visit(node)

    def visit_Subscript(self, node):
        sl = node.slice
        if isinstance(sl, ast.Slice):
            for part in ("lower", "upper"):
                e = getattr(sl, part)
                if e is not None and not isinstance(e, ast.Constant):
                    for d, nm in ((ast.Add, "+1"), (ast.Sub, "-1")):
                        self._emit(e, ast.BinOp(left=e, op=d(), right=ast.Constant(1)), "slice", f"slice {part} {nm}")
            if sl.lower is not None and sl.upper is not None:
                pass
        self.generic_visit(node)

    # -- statements ------------------------------------------------------------------------------------------------
    def visit_If(self, node):
        self._emit(node.test, ast.UnaryOp(op=ast.Not(), operand=node.test), "cond", "negate if condition")
        self._emit(node.test, "True", "cond", "if condition -> True")
        self._emit(node.test, "False", "cond", "if condition -> False")
        self.generic_visit(node)

    def visit_While(self, node):
        if not (isinstance(node.test, ast.Constant)):
            self._emit(node.test, ast.UnaryOp(op=ast.Not(), operand=node.test), "cond", "negate while condition")
            self._emit(node.test, "False", "cond", "while condition -> False")
        self.generic_visit(node)

    def _stmt_delete(self, node, what):
        if node.lineno == node.end_lineno or True:
            self._emit(node, "pass", "del", f"delete {what}")

    def visit_Assign(self, node):
        if self.func:
            self._stmt_delete(node, "assignment")
        self.generic_visit(node)

    def visit_AugAssign(self, node):
        self._stmt_delete(node, "augmented assignment")
        t = BIN.get(type(node.op))
        if t:
            new = ast.AugAssign(target=node.target, op=t(), value=node.value)
            self._emit(node, new, "arith", f"{type(node.op).__name__}= -> {t.__name__}=", paren=False)
        self.generic_visit(node)

    def visit_Expr(self, node):
        if _is_logger_call(node.value):
            return
        if isinstance(node.value, (ast.Call, ast.Await)) and self.func:
            self._stmt_delete(node, "call statement")
        self.generic_visit(node)

    def visit_Return(self, node):
        if node.value is not None and not (isinstance(node.value, ast.Constant) and node.value.value is None):
            self._emit(node, "return None", "ret", "return None instead of the value")
            if isinstance(node.value, ast.Constant) and isinstance(node.value.value, bool):
                pass
        self.generic_visit(node)

    def visit_Break(self, node):
        self._emit(node, "continue", "loop", "break -> continue")

    def visit_Continue(self, node):
        self._emit(node, "break", "loop", "continue -> break")

    def visit_Raise(self, node):
        self._emit(node, "pass", "del", "delete raise")

    def visit_Try(self, node):
        self.generic_visit(node)


def generate(files=None):
    out = []
    for fname in sorted(RELEVANT):
        if files and fname not in files:
            continue
        path = os.path.join(REPO, "han", fname)
        src = open(path).read()
        g = Gen(src, fname)
        g.visit(ast.parse(src))
        seen = set()
        for m in g.out:
            key = (m["a"], m["b"], m["text"])
            if key in seen:
                continue
            seen.add(key)
            new = src[:m["a"]] + m["text"] + src[m["b"]:]
            try:
                compile(new, fname, "exec")
            except SyntaxError:
                continue
            out.append(m)
    import hashlib

    out = [m for m in out if not any(x in m["func"] for x in ("__repr__", "__str__", "_instance_id"))]
    for i, m in enumerate(out):
        h = hashlib.blake2b(repr((m["orig"], m["text"], m["func"], m["a"] - m["b"])).encode(), digest_size=3).hexdigest()
        m["id"] = f"{m['file'][:-3]}:{m['line']}:{m['op']}:{h}"
    return out


def _copy_repo(dst):
    shutil.copytree(REPO, dst, ignore=shutil.ignore_patterns(".git", "__pycache__", ".pytest_cache", "*.egg-info"))


def tests_only(m):
    """True if the repository's own test suite passes with the mutant applied."""
    wt = tempfile.mkdtemp(prefix="mutwt-", dir="/tmp")
    os.rmdir(wt)
    try:
        _copy_repo(wt)
        path = os.path.join(wt, "han", m["file"])
        src = open(path).read()
        open(path, "w").write(src[:m["a"]] + m["text"] + src[m["b"]:])
        try:
            t = subprocess.run(["/venv/bin/python", "-m", "pytest", "-q", "-p", "no:cacheprovider", "-x"], cwd=wt, capture_output=True, text=True, timeout=120,
                               env=dict(os.environ, PYTHONDONTWRITEBYTECODE="1"))
            return m["id"], t.returncode == 0
        except subprocess.TimeoutExpired:
            return m["id"], False
    finally:
        shutil.rmtree(wt, ignore_errors=True)


def evaluate(m, procs, tier="quick", known_tests_pass=False, depth=99):
    wt = tempfile.mkdtemp(prefix="mutwt-", dir="/tmp")
    out = tempfile.mkdtemp(prefix="mutout-", dir="/tmp")
    os.rmdir(wt)
    res = {"id": m["id"], "file": m["file"], "line": m["line"], "func": m["func"], "op": m["op"], "desc": m["desc"], "orig": m["orig"], "text": m["text"][:120]}
    try:
        _copy_repo(wt)
        path = os.path.join(wt, "han", m["file"])
        src = open(path).read()
        open(path, "w").write(src[:m["a"]] + m["text"] + src[m["b"]:])
        env0 = dict(os.environ, PYTHONDONTWRITEBYTECODE="1")
        try:
            t = None if known_tests_pass else subprocess.run(["/venv/bin/python", "-m", "pytest", "-q", "-p", "no:cacheprovider", "-x"], cwd=wt, capture_output=True, text=True, timeout=120, env=env0)
            tests_pass = known_tests_pass or t.returncode == 0
        except subprocess.TimeoutExpired:
            tests_pass = False
        if not tests_pass:
            res["verdict"] = "killed_by_repo_tests"
            return res
        env = dict(os.environ, VERIF_REPO=wt, VERIF_OUT=out, VERIF_FAILFAST="1", VERIF_PROCS=str(procs), VERIF_TASK_LIMIT="900", VERIF_TIME_CAP=os.environ.get("MUT_TIME_CAP", "45"))
        res["checks"] = {}
        for c in (m.get("checks") or relevant(m))[:depth]:
            t0 = time.time()
            try:
                r = subprocess.run([os.path.join(VERIF, "check"), c, "--tier", tier], env=env, capture_output=True, text=True, timeout=2400)
                viol = [l for l in r.stdout.splitlines() if l.startswith("VIOLATION")]
                detail = [l.strip() for l in r.stdout.splitlines() if l.strip().startswith("kind=")]
                caught = r.returncode == 1 and bool(viol)
                res["checks"][c] = {"caught": caught, "s": round(time.time() - t0, 1), "rc": r.returncode, "detail": detail[0][:240] if detail else ""}
                if r.returncode not in (0, 1):
                    res["checks"][c]["tail"] = (r.stdout[-600:] + r.stderr[-600:])
                    caught = True  # the check crashed on the mutant: counts as noticed, flagged for review
                    res["checks"][c]["crashed"] = True
            except subprocess.TimeoutExpired:
                res["checks"][c] = {"caught": True, "s": 2400, "rc": None, "detail": "check timed out (mutant hangs)", "crashed": True}
                caught = True
            if caught:
                res["verdict"] = "caught"
                res["caught_by"] = c
                return res
        res["verdict"] = "survived"
        return res
    finally:
        shutil.rmtree(wt, ignore_errors=True)
        shutil.rmtree(out, ignore_errors=True)


def main():
    os.makedirs(MUT_DIR, exist_ok=True)
    cmd = sys.argv[1] if len(sys.argv) > 1 else "report"
    arg = {sys.argv[i]: sys.argv[i + 1] for i in range(2, len(sys.argv) - 1) if sys.argv[i].startswith("--")}
    """--files a.py,b.py  --hours H  --procs N  --stride K  --offset I  --checks C01,C02"""
    files = arg.get("--files", "").split(",") if arg.get("--files") else None
    lst = os.path.join(MUT_DIR, "mutants.jsonl")
    resf = os.path.join(MUT_DIR, "results.jsonl")
    if cmd == "gen":
        ms = generate(files)
        with open(lst, "w") as fh:
            for m in ms:
                fh.write(json.dumps(m) + "\n")
        by = {}
        for m in ms:
            by[m["file"]] = by.get(m["file"], 0) + 1
        print(len(ms), "mutants", by)
        return 0
    if cmd == "tests":  # phase 1: which mutants does the repository's own suite notice?  -> tests.jsonl
        import multiprocessing as mp

        ms = [json.loads(l) for l in open(lst)]
        tf = os.path.join(MUT_DIR, "tests.jsonl")
        done = {json.loads(l)["id"] for l in open(tf)} if os.path.exists(tf) else set()
        todo = [m for m in ms if m["id"] not in done]
        with mp.Pool(int(arg.get("--procs", 8))) as pool, open(tf, "a") as fh:
            for i, (mid, ok) in enumerate(pool.imap_unordered(tests_only, todo)):
                fh.write(json.dumps({"id": mid, "tests_pass": ok}) + "\n")
                fh.flush()
        rs = [json.loads(l) for l in open(tf)]
        print(len(rs), "mutants;", sum(r["tests_pass"] for r in rs), "not noticed by the repository's tests")
        return 0
    if cmd == "run":
        ms = [json.loads(l) for l in open(lst)]
        if files:
            ms = [m for m in ms if m["file"] in files]
        stride, offset = int(arg.get("--stride", 1)), int(arg.get("--offset", 0))
        ms = ms[offset::stride]
        done = set()
        if os.path.exists(resf):
            done = {json.loads(l)["id"] for l in open(resf)}
        tf = os.path.join(MUT_DIR, "tests.jsonl")
        tp = {}
        if os.path.exists(tf):
            tp = {r["id"]: r["tests_pass"] for r in map(json.loads, open(tf))}
        depth = int(arg.get("--depth", 99))
        deadline = time.time() + float(arg.get("--hours", 4)) * 3600
        procs = int(arg.get("--procs", 8))
        for m in ms:
            if m["id"] in done:
                continue
            if time.time() > deadline:
                break
            if tp.get(m["id"]) is False:
                r = {"id": m["id"], "file": m["file"], "line": m["line"], "func": m["func"], "op": m["op"], "desc": m["desc"], "orig": m["orig"], "text": m["text"][:120], "verdict": "killed_by_repo_tests"}
            else:
                r = evaluate(m, procs, known_tests_pass=tp.get(m["id"], False), depth=depth)
            with open(resf, "a") as fh:
                fh.write(json.dumps(r) + "\n")
            print(r["id"], r["verdict"], r.get("caught_by", ""), flush=True)
        return 0
    if cmd == "one":  # python3 mc/mutate.py one <mutant id> [--checks C01,C02]
        ms = {json.loads(l)["id"]: json.loads(l) for l in open(lst)}
        m = ms[sys.argv[2]]
        if arg.get("--checks"):
            m["checks"] = arg["--checks"].split(",")
        r = evaluate(m, int(arg.get("--procs", 16)))
        print(json.dumps(r, indent=1))
        return 0
    if cmd == "report":
        rs = [json.loads(l) for l in open(resf)]
        tab = {}
        for r in rs:
            t = tab.setdefault(r["file"], {"killed_by_repo_tests": 0, "caught": 0, "survived": 0})
            t[r["verdict"]] += 1
        for f, t in sorted(tab.items()):
            n = t["caught"] + t["survived"]
            print(f"{f:22s} evaluated {sum(t.values()):4d}  killed by the repo tests {t['killed_by_repo_tests']:4d}  passed the tests {n:4d}: caught {t['caught']:4d}  survived {t['survived']:3d}")
        for r in rs:
            if r["verdict"] == "survived":
                print(f"SURVIVED {r['id']:34s} {r['func']:50s} {r['desc']:42s} | {r['orig'][:70]!r}")
        return 0
    return 2


if __name__ == "__main__":
    sys.exit(main())
