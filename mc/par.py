"""Fork-pool helper: partition an enumeration over worker processes, merge the partial results.

Workers are plain forks of the parent (the han modules are imported once, in the parent); nothing
is shared.  Results are returned in task order, so reports do not depend on scheduling."""
from __future__ import annotations

import multiprocessing as mp
import os
import random
import resource

PROCS = int(os.environ.get("VERIF_PROCS", "0")) or min(16, os.cpu_count() or 1)


def _init() -> None:
    # address-space backstop (DESIGN 3.9): a runaway allocation kills the worker, not the sandbox
    lim = 6 << 30
    try:
        resource.setrlimit(resource.RLIMIT_AS, (lim, lim))
    except (ValueError, OSError):
        pass


def _call(arg):
    idx, fn, task = arg
    return idx, fn(task)


def pmap(fn, tasks, seed: int = 0, procs: int | None = None):
    """Run fn(task) for every task; returns the results in the order of `tasks`.

    `seed` only permutes the order in which tasks are handed to workers."""
    tasks = list(tasks)
    n = procs or PROCS
    if n <= 1 or len(tasks) <= 1:
        return [fn(t) for t in tasks]
    order = list(range(len(tasks)))
    random.Random(seed).shuffle(order)
    out = [None] * len(tasks)
    ctx = mp.get_context("fork")
    with ctx.Pool(min(n, len(tasks)), initializer=_init) as pool:
        for idx, res in pool.imap_unordered(_call, [(i, fn, tasks[i]) for i in order], chunksize=1):
            out[idx] = res
    return out
