"""Fork-pool helper: partition an enumeration over worker processes, merge the partial results.

Workers are plain forks of the parent (the han modules are imported once, in the parent); nothing
is shared.  Results are returned in task order, so reports do not depend on scheduling."""
from __future__ import annotations

import multiprocessing as mp
import mmap
import os
import random
import resource
import struct

PROCS = int(os.environ.get("VERIF_PROCS", "0")) or min(16, os.cpu_count() or 1)

# ---- watchdog ----------------------------------------------------------------------------------------------------
# A change can make the implementation hang inside ONE C-level call (an arbitrary-precision conversion, a regular
# expression): no Python-level budget sees that, and a check that never exits decides nothing.  Every worker owns a
# record in a shared map: (start of its task, last heart beat, task index, text of the case in hand, pid).  The parent
# polls every 2 s.  A worker whose beat value has not changed while it consumed more than CASE_LIMIT seconds of
# PROCESSOR time (read from /proc/<pid>/stat - immune to a loaded or suspended machine), or over 10 x CASE_LIMIT seconds
# of parent-observed polls (an evaluation that sleeps for ever), or whose task exceeds TASK_LIMIT, is killed and
# reported as a violation of kind "hang".  Polls separated by more than 30 s (the parent itself was not running) reset
# all observations.
FAILFAST = bool(os.environ.get("VERIF_FAILFAST"))
CASE_LIMIT = float(os.environ.get("VERIF_CASE_LIMIT", "45"))
TASK_LIMIT = float(os.environ.get("VERIF_TASK_LIMIT", "0")) or None  # set by run.py according to the tier
_REC = 1024
_mm = None
_slot = None


def _now() -> float:
    from mc import vclock

    return vclock.real("time")()


def _write(start=None, beat=None, idx=None, case=None) -> None:
    if _mm is None or _slot is None:
        return
    off = _slot * _REC
    if start is not None:
        _mm[off:off + 8] = struct.pack("d", start)
    if beat is not None:
        _mm[off + 8:off + 16] = struct.pack("d", beat)
    if idx is not None:
        _mm[off + 16:off + 24] = struct.pack("q", idx)
    if case is not None:
        b = case if isinstance(case, bytes) else str(case).encode("utf-8", "replace")
        b = b[:_REC - 40]
        _mm[off + 24:off + 26] = struct.pack("H", len(b))
        _mm[off + 26:off + 26 + len(b)] = b


def beat(case) -> None:
    """Called by an explorer right before it hands `case` to the implementation."""
    _write(beat=_now(), case=case)


def _read(slot):
    off = slot * _REC
    start, bt = struct.unpack("dd", _mm[off:off + 16])
    idx, = struct.unpack("q", _mm[off + 16:off + 24])
    n, = struct.unpack("H", _mm[off + 24:off + 26])
    pid, = struct.unpack("q", _mm[off + _REC - 8:off + _REC])
    return start, bt, idx, bytes(_mm[off + 26:off + 26 + n]).decode("utf-8", "replace"), pid


_TICK = os.sysconf("SC_CLK_TCK") if hasattr(os, "sysconf") else 100


def _cpu(pid: int) -> float:
    """Processor seconds (user + system) consumed so far by a worker - does not advance while the machine is suspended
    or the worker is waiting for a processor, unlike real time."""
    try:
        with open(f"/proc/{pid}/stat") as fh:
            f = fh.read().rsplit(")", 1)[1].split()
        return (int(f[11]) + int(f[12])) / _TICK
    except (OSError, IndexError, ValueError):
        return 0.0


def run_with_deadline(fn, seconds: float) -> str:
    """fn() in a forked child: 'ok', 'timeout' (killed after `seconds` of real time) or 'crashed'.  For replays of hangs."""
    import signal
    import time as _t

    pid = os.fork()
    if pid == 0:
        try:
            fn()
            os._exit(0)
        except BaseException:  # noqa: BLE001
            os._exit(3)
    t0 = _now()
    while True:
        done, st = os.waitpid(pid, os.WNOHANG)
        if done:
            return "ok" if os.WIFEXITED(st) and os.WEXITSTATUS(st) == 0 else "crashed"
        if _now() - t0 > seconds:
            os.kill(pid, signal.SIGKILL)
            os.waitpid(pid, 0)
            return "timeout"
        _t.sleep(0.05)


def _init(counter=None) -> None:
    global _slot
    if counter is not None:
        with counter.get_lock():
            _slot = counter.value
            counter.value += 1
    # address-space backstop (DESIGN 3.9): a runaway allocation kills the worker, not the sandbox
    lim = 6 << 30
    try:
        resource.setrlimit(resource.RLIMIT_AS, (lim, lim))
    except (ValueError, OSError):
        pass


def _guard(fn, task):
    """An exception escaping a worker is reported as a violation of kind 'exception' (never a crashed check):
    explorers other than C14/C15 do not expect the implementation to raise on the inputs they generate."""
    try:
        res = fn(task)
        if hasattr(res, "cov"):
            from mc import cover

            res.cov |= set(cover.take_new())
        return res
    except Exception as ex:  # noqa: BLE001
        import traceback

        from mc import core

        p = core.Part()
        tb = traceback.extract_tb(ex.__traceback__)
        where = next((f"{f.filename.split('/')[-1]}:{f.lineno}" for f in reversed(tb) if "/han/" in f.filename), "harness")
        p.viol("exception", f"exception:{type(ex).__name__}:{where}",
               f"{type(ex).__name__}: {ex} escaped at {where} while exploring task {task!r:.200}",
               {"kind": "exception", "task": repr(task)[:2000], "traceback": traceback.format_exc()[-3000:]}, size=0)
        return p


def _call(arg):
    idx, fn, task = arg
    from mc import core

    # the logging configuration is part of the environment: odd tasks run with DEBUG logging and a formatting handler
    h = (idx * 2654435761 + 0x9E3779B9) >> 9  # decorrelated from the structure of the task list
    dbg = h & 1
    core.set_logging("debug" if dbg else "off")
    core.set_ambient(lowprec=bool(h & 2), dst_zone=bool(h & 4))
    from mc import vclock

    vclock.reset()
    t = _now()
    if _mm is not None and _slot is not None:
        _mm[_slot * _REC + _REC - 8:_slot * _REC + _REC] = struct.pack("q", os.getpid())
    _write(start=t, beat=0.0, idx=idx, case=b"")
    try:
        res = _guard(fn, task)
    finally:
        core.set_logging("off")
        core.set_ambient(False, False)
        _write(start=0.0, beat=0.0)
    if hasattr(res, "c"):
        res.c["tasks_logging_" + ("debug" if dbg else "off")] = res.c.get("tasks_logging_" + ("debug" if dbg else "off"), 0) + 1
    return idx, res


def pmap(fn, tasks, seed: int = 0, procs: int | None = None):
    """Run fn(task) for every task; returns the results in the order of `tasks`.

    `seed` only permutes the order in which tasks are handed to workers."""
    tasks = list(tasks)
    n = procs or PROCS
    global _mm
    if n <= 1 or not tasks:
        return [_call((i, fn, t))[1] for i, t in enumerate(tasks)]
    order = list(range(len(tasks)))
    random.Random(seed).shuffle(order)
    out = [None] * len(tasks)
    ctx = mp.get_context("fork")
    nw = min(n, len(tasks))
    _mm = mmap.mmap(-1, _REC * nw)
    counter = ctx.Value("i", 0)
    hung = None
    pool = ctx.Pool(nw, initializer=_init, initargs=(counter,))
    try:
        it = pool.imap_unordered(_call, [(i, fn, tasks[i]) for i in order], chunksize=1)
        got = 0
        watch = {}  # slot -> [beat value, cpu seconds of the worker when that value was first seen, polls seen, task idx, task polls]
        last_poll = _now()
        while got < len(tasks):
            try:
                idx, res = it.next(timeout=2.0)
                out[idx] = res
                got += 1
                if FAILFAST and getattr(res, "v", None):
                    break
                if _now() - last_poll < 2.0:
                    continue
            except mp.TimeoutError:
                pass
            now = _now()
            gap, last_poll = now - last_poll, now
            if gap > 30.0:
                watch.clear()  # this process itself was not scheduled (suspended sandbox): what it saw before says nothing
                continue
            for slot in range(nw):
                start, bt, idx, case, pid = _read(slot)
                if start <= 0:
                    watch.pop(slot, None)
                    continue
                w = watch.get(slot)
                if w is None or w[3] != idx:
                    w = watch[slot] = [None, 0.0, 0, idx, 0]
                w[4] += 1
                if bt != w[0]:
                    w[0], w[1], w[2] = bt, _cpu(pid), 0
                else:
                    w[2] += 1
                if bt > 0 and w[2] >= 2:
                    used = _cpu(pid) - w[1]
                    if used > CASE_LIMIT:
                        hung = (idx, case, f"one evaluation used more than {CASE_LIMIT:g} s of processor time without returning")
                    elif w[2] * 2.0 > 10 * CASE_LIMIT:
                        hung = (idx, case, f"one evaluation did not return within {10 * CASE_LIMIT:g} s (observed over {w[2]} polls of this process)")
                if not hung and TASK_LIMIT and w[4] * 2.0 > TASK_LIMIT:
                    hung = (idx, case, f"partition did not finish within {TASK_LIMIT:g} s (observed over {w[4]} polls)")
                if hung:
                    break
            if hung:
                break
    finally:
        pool.terminate()
        pool.join()
        _mm.close()
        _mm = None
    if got < len(tasks) and not hung:  # fail-fast stop
        from mc import core

        for i in range(len(tasks)):
            if out[i] is None:
                out[i] = core.Part()
                out[i].capped = True
    if hung:
        from mc import core

        idx, case, why = hung
        for i in range(len(tasks)):
            if out[i] is None:
                out[i] = core.Part()
                out[i].capped = True
        p = out[idx]
        p.viol("hang", f"hang:{case[:200] or repr(tasks[idx])[:200]}", f"{why}; case in hand: {case or '(not published)'}; partition {tasks[idx]!r:.200}",
               {"kind": "hang", "case": case, "task": repr(tasks[idx])[:2000]}, size=len(case))
    return out
