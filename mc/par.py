"""Fork-pool helper: partition an enumeration over worker processes, merge the partial results.

Workers are plain forks of the parent (the han modules are imported once, in the parent); nothing
is shared.  Results are returned in task order, so reports do not depend on scheduling."""
from __future__ import annotations

import multiprocessing as mp
import os
import random
import resource

PROCS = int(os.environ.get("VERIF_PROCS", "0")) or min(16, os.cpu_count() or 1)


def _init() -> None:
    # address-space backstop (DESIGN 3.9): a runaway allocation kills the worker, not the sandbox
    lim = 6 << 30
    try:
        resource.setrlimit(resource.RLIMIT_AS, (lim, lim))
    except (ValueError, OSError):
        pass


def _guard(fn, task):
    """An exception escaping a worker is reported as a violation of kind 'exception' (never a crashed check):
    explorers other than C14/C15 do not expect the implementation to raise on the inputs they generate."""
    try:
        res = fn(task)
        if hasattr(res, "cov"):
            from mc import cover

            res.cov |= set(cover.take_new())
        return res
    except Exception as ex:  # noqa: BLE001
        import traceback

        from mc import core

        p = core.Part()
        tb = traceback.extract_tb(ex.__traceback__)
        where = next((f"{f.filename.split('/')[-1]}:{f.lineno}" for f in reversed(tb) if "/han/" in f.filename), "harness")
        p.viol("exception", f"exception:{type(ex).__name__}:{where}",
               f"{type(ex).__name__}: {ex} escaped at {where} while exploring task {task!r:.200}",
               {"kind": "exception", "task": repr(task)[:2000], "traceback": traceback.format_exc()[-3000:]}, size=0)
        return p


def _call(arg):
    idx, fn, task = arg
    from mc import core

    # the logging configuration is part of the environment: odd tasks run with DEBUG logging and a formatting handler
    dbg = ((idx * 2654435761 + 0x9E3779B9) >> 9) & 1  # decorrelated from the structure of the task list
    core.set_logging("debug" if dbg else "off")
    from mc import vclock

    vclock.reset()
    try:
        res = _guard(fn, task)
    finally:
        core.set_logging("off")
    if hasattr(res, "c"):
        res.c["tasks_logging_" + ("debug" if dbg else "off")] = res.c.get("tasks_logging_" + ("debug" if dbg else "off"), 0) + 1
    return idx, res


def pmap(fn, tasks, seed: int = 0, procs: int | None = None):
    """Run fn(task) for every task; returns the results in the order of `tasks`.

    `seed` only permutes the order in which tasks are handed to workers."""
    tasks = list(tasks)
    n = procs or PROCS
    if n <= 1 or len(tasks) <= 1:
        return [_call((i, fn, t))[1] for i, t in enumerate(tasks)]
    order = list(range(len(tasks)))
    random.Random(seed).shuffle(order)
    out = [None] * len(tasks)
    ctx = mp.get_context("fork")
    with ctx.Pool(min(n, len(tasks)), initializer=_init) as pool:
        for idx, res in pool.imap_unordered(_call, [(i, fn, tasks[i]) for i in order], chunksize=1):
            out[idx] = res
    return out
