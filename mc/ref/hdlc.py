"""Reference model of HDLC frame format type 3 framing as used by the property statements (C01, C02, C06,
C16).  Independent of han: builds frames, stuffs/unstuffs, splits fields by the LSB address rule, and decides
the containment clause."""
from __future__ import annotations

from mc.ref.fcs import fcs16_fast as _fcs

FLAG = 0x7E
ESC = 0x7D
MAXLEN = 2047


def trailer(data: bytes) -> bytes:
    f = _fcs(data)
    return bytes((f & 0xFF, f >> 8))


def address(value_octets: int, seed: int = 0) -> bytes:
    """An address of the given number of octets: all but the last have LSB 0, the last has LSB 1."""
    out = bytearray()
    for i in range(value_octets):
        v = ((seed + 3 * i) * 2) & 0xFE
        if i == value_octets - 1:
            v |= 1
        out.append(v)
    return bytes(out)


def build_frame(ftype: int = 0xA, seg: int = 0, dest: bytes = b"\x01", src: bytes = b"\x21", control: int = 0x13,
                info: bytes = b"", length: int | None = None, bad_fcs: bool = False) -> bytes:
    """Frame octets between the flags (un-stuffed).  `length` overrides the declared length field."""
    n = 2 + len(dest) + len(src) + 1 + 2 + (len(info) + 2 if info else 0)
    decl = n if length is None else length
    assert n <= MAXLEN and 0 <= decl <= MAXLEN
    fmt = ((ftype & 0xF) << 12) | ((seg & 1) << 11) | decl
    head = bytes((fmt >> 8, fmt & 0xFF)) + dest + src + bytes((control,))
    out = head + trailer(head)
    if info:
        out += info
        out += trailer(out)
    if bad_fcs:
        out = out[:-1] + bytes((out[-1] ^ 0x01,))
    return out


def stuff(frame: bytes) -> bytes:
    out = bytearray()
    for b in frame:
        if b in (FLAG, ESC):
            out.append(ESC)
            out.append(b ^ 0x20)
        else:
            out.append(b)
    return bytes(out)


def unstuff_lenient(seg: bytes) -> bytes:
    """Undo octet stuffing of one inter-flag segment; a trailing lone escape octet is dropped."""
    out = bytearray()
    esc = False
    for x in seg:
        if esc:
            out.append(x ^ 0x20)
            esc = False
        elif x == ESC:
            esc = True
        else:
            out.append(x)
    return bytes(out)


def wire(frame: bytes, stuffing: bool) -> bytes:
    return stuff(frame) if stuffing else frame


def stream(frames, stuffing: bool, fill: int = 1, lead: bytes = b"", shared: bool = True) -> bytes:
    """frames separated by `fill` flags (>=1), with an opening and a closing flag; optional flag-free lead noise."""
    out = bytearray(lead)
    out += bytes([FLAG]) * fill
    for f in frames:
        out += wire(f, stuffing)
        out += bytes([FLAG]) * fill
    return bytes(out)


def _addr(B: bytes, i: int):
    j = i
    while j < len(B):
        if B[j] & 1:
            return B[i:j + 1], j + 1
        j += 1
    return None, None


def frame_fields(B: bytes):
    """Split frame octets by the LSB address rule. None if the addresses do not terminate."""
    d, i2 = _addr(B, 2)
    if d is None:
        return None
    s, i3 = _addr(B, i2)
    if s is None:
        return None
    cp = i3
    if cp + 2 >= len(B):
        return None
    info = cp + 3
    return {"dest": d, "src": s, "cp": cp, "control": B[cp], "hcs": bytes(B[cp + 1:cp + 3]),
            "fcs": bytes(B[-2:]), "length": ((B[0] & 7) << 8) | B[1], "info": info,
            "payload": bytes(B[info:-2]) if len(B) > info else None}


def expected_valid(B: bytes) -> bool:
    return (len(B) >= 2 and (((B[0] & 7) << 8) | B[1]) == len(B)
            and _fcs(B[:-2]) == (B[-2] | (B[-1] << 8)))


def contained(S: bytes, frames, stuffing: bool) -> bool:
    """Containment clause of C01: each returned frame lies contiguously between two flags of the input
    (after un-stuffing), no input octet serves two frames, stream order."""
    if stuffing:
        inner = S.split(bytes([FLAG]))[1:-1]
        j = 0
        for F in frames:
            while j < len(inner) and unstuff_lenient(inner[j]) != F:
                j += 1
            if j == len(inner):
                return False
            j += 1
        return True
    pos = 0
    for F in frames:
        pat = bytes([FLAG]) + F + bytes([FLAG])
        k = S.find(pat, pos)
        if k < 0:
            return False
        pos = k + len(pat) - 1  # the closing flag may be the next frame's opening flag
    return True


def clean_domain(frame: bytes, stuffing: bool, abort: bool) -> bool:
    """Is this frame inside C02's guarantee for the configuration?"""
    if stuffing:
        return True
    f = frame_fields(frame)
    if f is None:
        return False
    head_end = f["cp"] + 3  # format .. HCS (or .. FCS for header-only frames)
    if FLAG in frame[:head_end]:
        return False
    if abort:
        if frame.endswith(bytes([ESC])):
            return False
        if bytes([ESC, FLAG]) in frame:
            return False
    return True
