"""Reference model for IEC 62056-21 mode D ("P1") readouts: builder, identification-line syntax, CRC placement,
and an exact parser of data blocks (used by C04, C05, C11, C13, C14, C16).  Independent of han."""
from __future__ import annotations

from fractions import Fraction

from mc.ref.fcs import crc16_arc

_HEX = set(b"0123456789abcdefABCDEF")


def _wordchar(c: str) -> bool:
    return c.isascii() and (c.isalnum() or c == "_")


def ident_ok(line: str) -> bool:
    """'/' XXX Z [\\W]* [ID up to 16 printable characters]   (line already stripped of white space).

    Manufacturer id: two upper-case letters and a third letter of either case; Z: baud rate digit;
    optional escape sequences (backslash + one alphanumeric); ID: 0..16 characters 0x20..0x7E, not '!'
    (a '!' would terminate the readout)."""
    if len(line) < 5 or line[0] != "/":
        return False
    a, b, c, z = line[1:5]
    if not (a.isascii() and a.isupper() and a.isalpha() and b.isascii() and b.isupper() and b.isalpha()
            and c.isascii() and c.isalpha() and z.isascii() and z.isdigit()):
        return False
    rest = line[5:]
    k = 0
    while True:
        tail = rest[2 * k:]
        if len(tail) <= 16 and all(0x20 <= ord(ch) <= 0x7E and ch != "!" for ch in tail):
            return True
        if len(tail) >= 2 and tail[0] == "\\" and _wordchar(tail[1]):
            k += 1
            continue
        return False


def ident_questionable(line: str) -> bool:
    """A '/' inside the identification part: IEC 62056-21 excludes it, the pinned code accepts it.  The property does not
    say which is right, so oracles treat such lines as "don't care" for the identification clauses."""
    return len(line) > 5 and "/" in line[5:]


def ident_fields(line: str):
    """(manufacturer id, identification or None) for a well-formed line, escape sequences removed greedily
    the way a regular expression with backtracking would (longest run of escapes that leaves <=16 id chars)."""
    rest = line[5:]
    k = 0
    while len(rest) - 2 * k >= 2 and rest[2 * k] == "\\" and _wordchar(rest[2 * k + 1]):
        k += 1
    while k >= 0:
        tail = rest[2 * k:]
        if len(tail) <= 16:
            return line[1:4], (tail if tail else None)
        k -= 1
    return line[1:4], None


def crc_text(body: bytes) -> bytes:
    """Four upper-case hex digits of the CRC over body (which must run from '/' through '!')."""
    return b"%04X" % crc16_arc(body)


def build_readout(ident: bytes, lines, eol: bytes = b"\r\n", checksum="crc", blank_after_ident: bool = True) -> bytes:
    """'/' ident eol [eol] line eol ... '!' [crc] eol"""
    out = bytearray(ident)
    out += eol
    if blank_after_ident:
        out += eol
    for ln in lines:
        out += ln
        out += eol
    out += b"!"
    if checksum == "crc":
        out += crc_text(bytes(out))
    elif checksum is not None and checksum != "none":
        out += checksum if isinstance(checksum, bytes) else b"%04X" % checksum
    out += eol
    return bytes(out)


def dissect(B: bytes):
    """Independent dissection of readout bytes: returns dict or None if there is no '/' start or no '!'."""
    B = B.lstrip()
    if not B or B[0] != 0x2F:
        return None
    e = B.find(b"!")
    if e < 0:
        return None
    lf = B.find(b"\n")
    data_pos = lf + 1
    trailer = B[e + 1:].strip(b" \t\r\n\x0b\x0c")
    is_cs = len(trailer) == 4 and all(c in _HEX for c in trailer)
    try:
        ident_line = B[:data_pos].decode("ascii").strip()
        ident_good = ident_ok(ident_line)
    except UnicodeDecodeError:
        ident_line = None
        ident_good = False
    # the end line as a line: the first line after the identification line that STARTS with '!' (a '!' inside a data
    # line - e.g. a ')' hit by one bit error - does not end the readout on the wire)
    end2 = None
    pos = data_pos
    while 0 < pos <= len(B):
        if pos < len(B) and B[pos] == 0x21:
            end2 = pos
            break
        nl = B.find(b"\n", pos)
        if nl < 0:
            break
        pos = nl + 1
    line_end = None
    if end2 is not None and end2 != e:
        nl = B.find(b"\n", end2)
        t2 = B[end2 + 1:nl if nl >= 0 else len(B)].strip(b" \t\r\n\x0b\x0c")
        if len(t2) == 4 and all(c in _HEX for c in t2):
            line_end = {"pos": end2, "sent": int(t2, 16), "crc": crc16_arc(B[:end2 + 1]), "trailer": t2}
    return {
        "stray_end_char": end2 is not None and end2 != e, "line_end": line_end,
        "bytes": B, "end": e, "data_pos": data_pos, "trailer": trailer, "is_checksum": is_cs,
        "crc": crc16_arc(B[:e + 1]), "sent": int(trailer, 16) if is_cs else None,
        "ident_line": ident_line, "ident_ok": ident_good, "ident_dontcare": bool(ident_line) and ident_questionable(ident_line), "payload": B[data_pos:e] if data_pos <= e else b"",
        "ascii": B.isascii(),
    }


# ---- exact parser of data blocks (C11) -----------------------------------------------------------------------

def exact_parse(block: str):
    """[(address, [(value, unit or None), ...]), ...] for a well-formed data block.

    Grammar: lines of one or more data sets; data set = address '(' value ['*' unit] ')' { '(' ... ')' }."""
    out = []
    for line in block.splitlines():
        if not line.strip():
            continue
        i = 0
        n = len(line)
        while i < n:
            j = line.index("(", i)
            addr = line[i:j]
            vals = []
            while j < n and line[j] == "(":
                k = line.index(")", j)
                body = line[j + 1:k]
                if "*" in body:
                    v, u = body.split("*", 1)
                    vals.append((v, u))
                else:
                    vals.append((body, None))
                j = k + 1
            out.append((addr, vals))
            i = j
    return out


def exact_decimal(text: str) -> Fraction:
    return Fraction(text)
