"""Bit-serial RFC 1662 FCS-16 and CRC-16/ARC references.  No tables, no import of han."""


def fcs_step(reg: int, octet: int) -> int:
    """One octet through the RFC 1662 shift register (x^16+x^12+x^5+1, reflected = 0x8408), LSB first."""
    for i in range(8):
        bit = (octet >> i) & 1
        if (reg ^ bit) & 1:
            reg = (reg >> 1) ^ 0x8408
        else:
            reg >>= 1
    return reg


def fcs_reg(data, reg: int = 0xFFFF) -> int:
    for b in data:
        reg = fcs_step(reg, b)
    return reg


def fcs16(data) -> int:
    """The FCS value that is transmitted (complemented register)."""
    return fcs_reg(data) ^ 0xFFFF


def fcs_trailer(data) -> bytes:
    f = fcs16(data)
    return bytes((f & 0xFF, f >> 8))


GOOD = 0xF0B8


def crc16_arc(data) -> int:
    """CRC-16 with polynomial x^16+x^15+x^2+1 reflected (0xA001), initial value 0, no final xor."""
    crc = 0
    for b in data:
        for i in range(8):
            bit = (b >> i) & 1
            if (crc ^ bit) & 1:
                crc = (crc >> 1) ^ 0xA001
            else:
                crc >>= 1
    return crc


# fast table-driven versions *derived from the bit-serial definitions above* (used where millions of
# reference values are needed); built and cross-checked at import time.
_T = [fcs_step(0, b) for b in range(256)]


def fcs_step_fast(reg: int, octet: int) -> int:
    return (reg >> 8) ^ _T[(reg ^ octet) & 0xFF]


def fcs16_fast(data) -> int:
    reg = 0xFFFF
    t = _T
    for b in data:
        reg = (reg >> 8) ^ t[(reg ^ b) & 0xFF]
    return reg ^ 0xFFFF


def _selfcheck() -> None:
    assert fcs16(b"123456789") == 0x906E, hex(fcs16(b"123456789"))  # CRC-16/X-25 check value
    assert crc16_arc(b"123456789") == 0xBB3D
    import random

    r = random.Random(1)
    for _ in range(200):
        reg, b = r.randrange(65536), r.randrange(256)
        assert fcs_step_fast(reg, b) == fcs_step(reg, b)
    # residue: message followed by its FCS (low octet first) leaves the register at 0xF0B8
    for n in (0, 1, 5):
        m = bytes(r.randrange(256) for _ in range(n))
        assert fcs_reg(m + fcs_trailer(m)) == GOOD


_selfcheck()
