"""Reference formatter for OBIS codes (C20).  groups = (A, B, C, D, E, F) with A, B, E, F optional (None)."""


def reduced(g) -> str:
    a, b, c, d, e, f = g
    s = ""
    if a is not None:
        s += f"{a}-"
    if b is not None:
        s += f"{b}:"
    s += f"{c}.{d}"
    if e is not None:
        s += f".{e}"
    if f is not None:
        s += f"*{f}"
    return s


def six(g) -> str:
    a, b, c, d, e, f = g
    return f"{a}.{b}.{c}.{d}.{e}." + ("" if f is None else f"{f}")


def has_digit_dot_digit(s: str) -> bool:
    return any(s[i].isdigit() and s[i + 1] == "." and s[i + 2].isdigit() for i in range(len(s) - 2))
