"""Reference encoders for the COSEM/DLMS push messages of Aidon, Kaifa and Kamstrup meters, a generic parser of
the tagged data syntax (used only to bind the encoders to the captured fixtures), the documented OBIS -> field
name table and exact expected values.  Independent of han."""
from __future__ import annotations

import struct
from datetime import datetime, timedelta, timezone
from fractions import Fraction

# ---- documented mapping C.D.E -> common field name ------------------------------------------------------------
NAMES = {
    "0.2.129": "list_ver_id", "96.1.0": "meter_id", "0.0.5": "meter_id", "96.1.7": "meter_type", "96.1.1": "meter_type",
    "1.0.0": "meter_datetime",
    "1.7.0": "active_power_import", "2.7.0": "active_power_export", "3.7.0": "reactive_power_import", "4.7.0": "reactive_power_export",
    "21.7.0": "active_power_import_l1", "41.7.0": "active_power_import_l2", "61.7.0": "active_power_import_l3",
    "22.7.0": "active_power_export_l1", "42.7.0": "active_power_export_l2", "62.7.0": "active_power_export_l3",
    "23.7.0": "reactive_power_import_l1", "43.7.0": "reactive_power_import_l2", "63.7.0": "reactive_power_import_l3",
    "24.7.0": "reactive_power_export_l1", "44.7.0": "reactive_power_export_l2", "64.7.0": "reactive_power_export_l3",
    "31.7.0": "current_l1", "51.7.0": "current_l2", "71.7.0": "current_l3",
    "32.7.0": "voltage_l1", "52.7.0": "voltage_l2", "72.7.0": "voltage_l3",
    "1.8.0": "active_power_import_total", "2.8.0": "active_power_export_total",
    "3.8.0": "reactive_power_import_total", "4.8.0": "reactive_power_export_total",
}


def name_of(obis: str) -> str:
    a, b, c, d, e, f = obis.split(".")
    cde = f"{c}.{d}.{e}"
    return NAMES.get(cde, cde)


# ---- primitive encoders -----------------------------------------------------------------------------------------

def obis6(s: str) -> bytes:
    return bytes(int(x) for x in s.split("."))


def vis(s) -> bytes:
    b = s.encode("ascii") if isinstance(s, str) else s
    return b"\x0a" + bytes([len(b)]) + b


def octs(s) -> bytes:
    b = s.encode("ascii") if isinstance(s, str) else s
    return b"\x09" + bytes([len(b)]) + b


def u32(v: int) -> bytes:
    return b"\x06" + struct.pack(">I", v)


def i16(v: int) -> bytes:
    return b"\x10" + struct.pack(">h", v)


def u16(v: int) -> bytes:
    return b"\x12" + struct.pack(">H", v)


def i8(v: int) -> bytes:
    return b"\x0f" + struct.pack(">b", v)


def enum(v: int) -> bytes:
    return b"\x16" + bytes([v])


TYPED = {"u32": u32, "i16": i16, "u16": u16}
RANGE = {"u32": (0, 2**32 - 1), "i16": (-2**15, 2**15 - 1), "u16": (0, 2**16 - 1)}


def dt12(y, mo, d, h, mi, s, hund=0xFF, dev=None, status=0, dow=0xFF) -> bytes:
    """The 12 octets of a COSEM date-time."""
    return struct.pack(">HBBBBBBB", y, mo, d, dow, h, mi, s, hund) + struct.pack(">h", -0x8000 if dev is None else dev) + bytes([status])


def exp_dt(y, mo, d, h, mi, s, hund=0xFF, dev=None, status=0, dow=0xFF) -> datetime:
    return datetime(y, mo, d, h, mi, s, 0 if hund == 0xFF else hund * 10000, None if dev is None else timezone(timedelta(minutes=-dev)))


def same_dt(a, b) -> bool:
    """Equality of datetimes including the UTC offset (== alone ignores it for aware values)."""
    return isinstance(a, datetime) and a == b and a.utcoffset() == b.utcoffset() and (a.tzinfo is None) == (b.tzinfo is None) \
        and a.replace(tzinfo=None) == b.replace(tzinfo=None)


def llc(body: bytes, apdu_dt: bytes = b"\x00", invoke: bytes = b"\x40\x00\x00\x00") -> bytes:
    """LLC header + data-notification APDU header + body.  apdu_dt: b'\\x00' (null), b'\\x09\\x0c'+12, or b'\\x0c'+12."""
    return b"\xe6\xe7\x00\x0f" + invoke + apdu_dt + body


# ---- generic parser of the tagged syntax (binding only) -------------------------------------------------------

def parse_tagged(data: bytes, pos: int = 0):
    t = data[pos]
    if t in (1, 2):
        n = data[pos + 1]
        return ("array" if t == 1 else "struct", n), pos + 2  # flat: children follow
    if t == 0:
        return ("null",), pos + 1
    if t == 6:
        return ("u32", struct.unpack(">I", data[pos + 1:pos + 5])[0]), pos + 5
    if t in (9, 10):
        n = data[pos + 1]
        return ("octets" if t == 9 else "vis", data[pos + 2:pos + 2 + n]), pos + 2 + n
    if t == 15:
        return ("i8", struct.unpack(">b", data[pos + 1:pos + 2])[0]), pos + 2
    if t == 16:
        return ("i16", struct.unpack(">h", data[pos + 1:pos + 3])[0]), pos + 3
    if t == 18:
        return ("u16", struct.unpack(">H", data[pos + 1:pos + 3])[0]), pos + 3
    if t == 22:
        return ("enum", data[pos + 1]), pos + 2
    raise ValueError(f"unknown tag {t:#x} at {pos}")


def tokens(data: bytes):
    """Flat token list of a body."""
    out = []
    pos = 0
    while pos < len(data):
        tok, pos = parse_tagged(data, pos)
        out.append(tok)
    return out


def encode_tokens(toks) -> bytes:
    out = bytearray()
    for t in toks:
        k = t[0]
        if k == "array":
            out += bytes([1, t[1]])
        elif k == "struct":
            out += bytes([2, t[1]])
        elif k == "null":
            out += b"\x00"
        elif k == "u32":
            out += u32(t[1])
        elif k == "octets":
            out += octs(t[1])
        elif k == "vis":
            out += vis(t[1])
        elif k == "i8":
            out += i8(t[1])
        elif k == "i16":
            out += i16(t[1])
        elif k == "u16":
            out += u16(t[1])
        elif k == "enum":
            out += enum(t[1])
    return bytes(out)


# ---- Aidon -------------------------------------------------------------------------------------------------------
# item: (obis, ("num", type, register, scaler, unit)) | (obis, ("str", text)) | (obis, ("dt", dt-tuple))

def aidon_item(obis: str, content) -> bytes:
    k = content[0]
    if k == "num":
        _, typ, reg, scaler, unit = content
        return b"\x02\x03" + octs(obis6(obis)) + TYPED[typ](reg) + b"\x02\x02" + i8(scaler) + enum(unit)
    if k == "str":
        return b"\x02\x02" + octs(obis6(obis)) + vis(content[1])
    return b"\x02\x02" + octs(obis6(obis)) + b"\x09\x0c" + dt12(*content[1])


def aidon_body(items) -> bytes:
    return b"\x01" + bytes([len(items)]) + b"".join(aidon_item(o, c) for o, c in items)


def exact_scaled(reg: int, scaler: int) -> Fraction:
    return Fraction(reg) * (Fraction(10) ** scaler)


def aidon_expected(items) -> dict:
    d = {"meter_manufacturer": ("str", "Aidon")}
    for obis, c in items:
        key = name_of(obis)
        if c[0] == "num":
            d[key] = ("num", exact_scaled(c[2], c[3]))
        elif c[0] == "str":
            d[key] = ("str", c[1])
        else:
            d[key] = ("dt", exp_dt(*c[1]))
    return d


def value_matches(got, want) -> bool:
    """want: ('num', Fraction) | ('str', text) | ('dt', datetime) | ('exact', value)"""
    k, w = want
    if k == "num":
        if isinstance(got, bool) or not isinstance(got, (int, float)):
            return False
        if w.denominator == 1:
            return got == int(w)
        return isinstance(got, float) and got == float(w)
    if k == "str":
        return isinstance(got, str) and got == w
    if k == "dt":
        return same_dt(got, w)
    return type(got) is type(w) and got == w


def dict_errors(got, want) -> list[str]:
    errs = []
    if not isinstance(got, dict):
        return [f"decoder returned {type(got).__name__}"]
    for k in want:
        if k not in got:
            errs.append(f"field {k!r} missing (expected {want[k][1]!r})")
        elif not value_matches(got[k], want[k]):
            w = want[k][1]
            errs.append(f"field {k!r} = {got[k]!r}, expected {float(w) if isinstance(w, Fraction) and w.denominator != 1 else w!r}")
    for k in got:
        if k not in want:
            errs.append(f"unexpected field {k!r} = {got[k]!r}")
    return errs


# ---- Kaifa -------------------------------------------------------------------------------------------------------
KAIFA_L3_3 = ["list_ver_id", "meter_id", "meter_type", "active_power_import", "active_power_export", "reactive_power_import",
              "reactive_power_export", "current_l1", "current_l2", "current_l3", "voltage_l1", "voltage_l2", "voltage_l3", "meter_datetime",
              "active_power_import_total", "active_power_export_total", "reactive_power_import_total", "reactive_power_export_total"]
KAIFA_L3_1 = KAIFA_L3_3[:8] + ["voltage_l1"] + KAIFA_L3_3[13:]
KAIFA_LAYOUTS = {1: ["active_power_import"], 9: KAIFA_L3_1[:9], 13: KAIFA_L3_3[:13], 14: KAIFA_L3_1, 18: KAIFA_L3_3}
KAIFA_SE = [("1.0.0.2.129.255", "list_ver_id"), ("0.0.96.1.0.255", "meter_id"), ("0.0.96.1.7.255", "meter_type"),
            ("1.0.1.7.0.255", "active_power_import"), ("1.0.2.7.0.255", "active_power_export"), ("1.0.3.7.0.255", "reactive_power_import"),
            ("1.0.4.7.0.255", "reactive_power_export"), ("1.0.31.7.0.255", "current_l1"), ("1.0.51.7.0.255", "current_l2"),
            ("1.0.71.7.0.255", "current_l3"), ("1.0.32.7.0.255", "voltage_l1"), ("1.0.52.7.0.255", "voltage_l2"),
            ("1.0.72.7.0.255", "voltage_l3"), ("0.0.1.0.0.255", "meter_datetime"), ("1.0.1.8.0.255", "active_power_import_total"),
            ("1.0.2.8.0.255", "active_power_export_total"), ("1.0.3.8.0.255", "reactive_power_import_total"),
            ("1.0.4.8.0.255", "reactive_power_export_total")]
TEXT_FIELDS = ("list_ver_id", "meter_id", "meter_type")


def kaifa_value(name, v) -> bytes:
    if name in TEXT_FIELDS:
        return octs(v)
    if name == "meter_datetime":
        return b"\x09\x0c" + dt12(*v)
    return u32(v)


def kaifa_body_positional(names, values) -> bytes:
    return b"\x02" + bytes([len(names)]) + b"".join(kaifa_value(n, values[n]) for n in names)


def kaifa_body_obis(values) -> bytes:
    return b"\x02" + bytes([2 * len(KAIFA_SE)]) + b"".join(octs(obis6(o)) + kaifa_value(n, values[n]) for o, n in KAIFA_SE)


def kaifa_expected(names, values, apdu=None) -> dict:
    d = {"meter_manufacturer": ("str", "Kaifa")}
    if apdu is not None:
        d["meter_datetime"] = ("dt", exp_dt(*apdu))
    for n in names:
        v = values[n]
        if n in TEXT_FIELDS:
            d[n] = ("str", v)
        elif n == "meter_datetime":
            d[n] = ("dt", exp_dt(*v))
        elif n.startswith("current"):
            d[n] = ("num", Fraction(v, 1000))
        elif n.startswith("voltage"):
            d[n] = ("num", Fraction(v, 10))
        else:
            d[n] = ("num", Fraction(v))
    return d


# ---- Kamstrup ----------------------------------------------------------------------------------------------------
KAM_OBIS = {"meter_id": "1.1.0.0.5.255", "meter_type": "1.1.96.1.1.255", "active_power_import": "1.1.1.7.0.255",
            "active_power_export": "1.1.2.7.0.255", "reactive_power_import": "1.1.3.7.0.255", "reactive_power_export": "1.1.4.7.0.255",
            "current_l1": "1.1.31.7.0.255", "current_l2": "1.1.51.7.0.255", "current_l3": "1.1.71.7.0.255",
            "voltage_l1": "1.1.32.7.0.255", "voltage_l2": "1.1.52.7.0.255", "voltage_l3": "1.1.72.7.0.255",
            "meter_datetime": "0.1.1.0.0.255", "active_power_import_total": "1.1.1.8.0.255", "active_power_export_total": "1.1.2.8.0.255",
            "reactive_power_import_total": "1.1.3.8.0.255", "reactive_power_export_total": "1.1.4.8.0.255"}
KAM_L1_3 = ["meter_id", "meter_type", "active_power_import", "active_power_export", "reactive_power_import", "reactive_power_export",
            "current_l1", "current_l2", "current_l3", "voltage_l1", "voltage_l2", "voltage_l3"]
KAM_L2_3 = KAM_L1_3 + ["meter_datetime", "active_power_import_total", "active_power_export_total", "reactive_power_import_total", "reactive_power_export_total"]
KAM_L1_1 = ["meter_id", "meter_type", "active_power_import", "active_power_export", "reactive_power_import", "reactive_power_export", "current_l1", "voltage_l1"]
KAM_L2_1 = KAM_L1_1 + ["meter_datetime", "active_power_import_total", "active_power_export_total", "reactive_power_import_total", "reactive_power_export_total"]
KAM_L2_1Q = ["meter_id", "meter_type", "active_power_import", "current_l1", "voltage_l1", "meter_datetime", "active_power_import_total"]
KAM_LAYOUTS = {"list1_3ph": KAM_L1_3, "list2_3ph": KAM_L2_3, "list1_1ph": KAM_L1_1, "list2_1ph": KAM_L2_1, "list2_1ph_1q": KAM_L2_1Q}


def kam_value(name, v) -> bytes:
    if name in ("meter_id", "meter_type"):
        return vis(v)
    if name == "meter_datetime":
        return b"\x09\x0c" + dt12(*v)
    if name.startswith("voltage"):
        return u16(v)
    return u32(v)


def kam_body(names, values, list_ver="Kamstrup_V0001", pad=None) -> bytes:
    """pad: dict position -> number of null-data octets after that flat element position (0 = after list version)."""
    pad = pad or {}
    out = bytearray(b"\x02" + bytes([(1 + 2 * len(names) + sum(pad.values())) & 0xFF]))  # real meters count the null-data too
    out += vis(list_ver) + b"\x00" * pad.get(0, 0)
    for i, n in enumerate(names, start=1):
        out += octs(obis6(KAM_OBIS[n])) + kam_value(n, values[n]) + b"\x00" * pad.get(i, 0)
    return bytes(out)


def kam_expected(names, values, list_ver="Kamstrup_V0001", apdu=None) -> dict:
    d = {"meter_manufacturer": ("str", "Kamstrup"), "list_ver_id": ("str", list_ver)}
    ct = "meter_type" in names and str(values["meter_type"]).startswith("685")
    for n in names:
        v = values[n]
        if n in ("meter_id", "meter_type"):
            d[n] = ("str", v)
        elif n == "meter_datetime":
            d[n] = ("dt", exp_dt(*v))
        elif n.startswith("current"):
            d[n] = ("num", Fraction(v, 1000 if ct else 100))
        elif n.endswith("_total"):
            d[n] = ("num", Fraction(v * 10))
        else:
            d[n] = ("num", Fraction(v))
    if apdu is not None:
        d["meter_datetime"] = ("dt", exp_dt(*apdu))
    return d
