"""E4 - lasso exploration for boundedness (DESIGN 3.5, sharpened).

A deterministic reader fed a periodic stream u.w.w.w... retains bounded memory iff its state sequence (sampled at
cycle ends) is eventually periodic.  pump() runs the real object, digests the complete object-graph snapshot after
every cycle and stops at the first repeated state: from there on the run is a loop, so the maximum deep size seen
so far is the maximum for the infinite stream.  It also stops as soon as the size bound is exceeded."""
from __future__ import annotations

from mc.snap import deep_size, digest


def pump(make, prefix_chunks, cycle_chunks, bound, max_bytes: int, max_cycles: int):
    """Returns (verdict, info).  verdict: 'lasso' (state repeated: bounded, max size in info), 'exceeded'
    (size bound broken), 'raises' (read() raised: C14's business), 'undecided' (no repeat within the horizon)."""
    r = make()
    fed = 0
    maxsize = 0
    try:
        for c in prefix_chunks:
            r.read(c)
            fed += len(c)
            s = deep_size(r)
            maxsize = max(maxsize, s)
            if s > bound(len(c)):
                return "exceeded", {"cycle": -1, "fed": fed, "size": s, "bound": bound(len(c))}
        seen = {digest(r): -1}
        sizes = []
        for k in range(max_cycles):
            for c in cycle_chunks:
                r.read(c)
                fed += len(c)
                s = deep_size(r)
                if s > maxsize:
                    maxsize = s
                if s > bound(len(c)):
                    return "exceeded", {"cycle": k, "fed": fed, "size": s, "bound": bound(len(c))}
            d = digest(r)
            if d in seen:
                return "lasso", {"loop_from": seen[d], "loop_to": k, "fed": fed, "max_size": maxsize}
            seen[d] = k
            sizes.append(s)
            if fed > max_bytes:
                break
    except Exception as ex:  # noqa: BLE001
        return "raises", {"exception": type(ex).__name__, "fed": fed}
    half = sizes[len(sizes) // 2] if sizes else 0
    return "undecided", {"fed": fed, "max_size": maxsize, "size_half": half, "size_end": sizes[-1] if sizes else 0,
                         "cycles": len(sizes)}
