"""Harness-owned wall clock.  The readers and decoders have no business reading a clock, but a change may make them do so
(time-outs, "stale data" heuristics).  install() wraps the functions of the `time` module so that the harness can let
hours pass between two calls; shim_module() does the same for a `datetime` name imported into a han module."""
from __future__ import annotations

import datetime as _dt
import time as _time
import types

_offset = 0.0
_calls = 0
_orig = {}
real_time = _time.time  # for the harness' own wall-clock measurements
BASE = 1_700_000_000.0  # a fixed epoch: the virtual clock is deterministic (base + harness offset + 1 us per call)


def _now() -> float:
    global _calls
    _calls += 1
    return BASE + _offset + _calls * 1e-6


def install() -> None:
    if _orig:
        return
    for name in ("monotonic", "time", "perf_counter"):
        _orig[name] = getattr(_time, name)
        setattr(_time, name, _now)
    for name in ("monotonic_ns", "time_ns", "perf_counter_ns"):
        _orig[name] = getattr(_time, name)
        setattr(_time, name, lambda: int(_now() * 1e9))


def real(name: str = "time"):
    """The original function (for the harness' own measurements)."""
    return _orig.get(name, getattr(_time, name))


def advance(seconds: float) -> None:
    global _offset
    _offset += seconds


def reset() -> None:
    """Called at the start of every worker task: the clock a task sees does not depend on what ran before it."""
    global _offset, _calls
    _offset = 0.0
    _calls = 0


class _Meta(type):
    """Stand-in for the datetime class inside a han module: behaves like datetime.datetime in every respect (calling it
    builds real datetime objects, isinstance/issubclass work, class attributes and constructors are delegated) except
    that now()/utcnow()/today() read the harness clock."""

    def __call__(cls, *a, **k):
        return _dt.datetime(*a, **k)

    def __instancecheck__(cls, obj):
        return isinstance(obj, _dt.datetime)

    def __subclasscheck__(cls, sub):
        return issubclass(sub, _dt.datetime)

    def __getattr__(cls, name):
        return getattr(_dt.datetime, name)

    def __eq__(cls, other):
        return other is cls or other is _dt.datetime

    def __hash__(cls):
        return hash(_dt.datetime)


class _ShiftedDateTime(metaclass=_Meta):
    @staticmethod
    def now(tz=None):
        return _dt.datetime.fromtimestamp(_now(), tz)

    @staticmethod
    def utcnow():
        return _dt.datetime.utcfromtimestamp(_now())

    @staticmethod
    def today():
        return _dt.datetime.fromtimestamp(_now())


def shim_module(mod) -> None:
    """Replace a module-level `datetime` (module or class) of a han module by one that follows the harness clock."""
    d = getattr(mod, "datetime", None)
    if d is _dt:
        ns = types.SimpleNamespace(**{k: getattr(_dt, k) for k in dir(_dt) if not k.startswith("__")})
        ns.datetime = _ShiftedDateTime
        mod.datetime = ns
    elif d is _dt.datetime:
        mod.datetime = _ShiftedDateTime
