"""Harness-owned wall clock.  The readers and decoders have no business reading a clock, but a change may make them do so
(time-outs, "stale data" heuristics).  install() wraps the functions of the `time` module so that the harness can let
hours pass between two calls; shim_module() does the same for a `datetime` name imported into a han module."""
from __future__ import annotations

import datetime as _dt
import time as _time
import types

_offset = 0.0
_orig = {}
real_time = _time.time  # for the harness' own wall-clock measurements


def install() -> None:
    if _orig:
        return
    for name in ("monotonic", "time", "perf_counter"):
        _orig[name] = getattr(_time, name)
        setattr(_time, name, (lambda f: (lambda: f() + _offset))(_orig[name]))
    for name in ("monotonic_ns", "time_ns", "perf_counter_ns"):
        _orig[name] = getattr(_time, name)
        setattr(_time, name, (lambda f: (lambda: f() + int(_offset * 1e9)))(_orig[name]))


def advance(seconds: float) -> None:
    global _offset
    _offset += seconds


class _ShiftedDateTime(_dt.datetime):
    @classmethod
    def now(cls, tz=None):
        return _dt.datetime.now(tz) + _dt.timedelta(seconds=_offset)

    @classmethod
    def utcnow(cls):
        return _dt.datetime.utcnow() + _dt.timedelta(seconds=_offset)

    @classmethod
    def today(cls):
        return cls.now()


def shim_module(mod) -> None:
    """Replace a module-level `datetime` (module or class) of a han module by one that follows the harness clock."""
    d = getattr(mod, "datetime", None)
    if d is _dt:
        ns = types.SimpleNamespace(**{k: getattr(_dt, k) for k in dir(_dt) if not k.startswith("__")})
        ns.datetime = _ShiftedDateTime
        mod.datetime = ns
    elif d is _dt.datetime:
        mod.datetime = _ShiftedDateTime
