"""Shared pieces of the decoder explorers (C07-C10, C12, C15): binding of the reference encoders to the captured
fixtures, value alphabets, date-time alphabets."""
from __future__ import annotations

import random
import struct

from mc.ref import cosem as RC


def _dt_from12(b: bytes):
    y, mo, d, dow, h, mi, s, hund = struct.unpack(">HBBBBBBB", b[:9])
    dev = struct.unpack(">h", b[9:11])[0]
    return (y, mo, d, h, mi, s, hund, None if dev == -0x8000 else dev, b[11], dow)


def _obis_str(b: bytes) -> str:
    return ".".join(str(x) for x in b)


def abstract_aidon(body: bytes):
    toks = RC.tokens(body)
    assert toks[0][0] == "array"
    items = []
    i = 1
    while i < len(toks):
        assert toks[i][0] == "struct"
        n = toks[i][1]
        obis = _obis_str(toks[i + 1][1])
        val = toks[i + 2]
        if n == 3:
            assert toks[i + 3] == ("struct", 2)
            items.append((obis, ("num", val[0], val[1], toks[i + 4][1], toks[i + 5][1])))
            i += 6
        else:
            if val[0] == "vis":
                items.append((obis, ("str", val[1].decode())))
            else:
                items.append((obis, ("dt", _dt_from12(val[1]))))
            i += 3
    return items


def abstract_kaifa(body: bytes):
    toks = RC.tokens(body)
    n = toks[0][1]
    vals = toks[1:]
    if vals and vals[0][0] == "octets" and len(vals[0][1]) == 6 and n == 2 * len(RC.KAIFA_SE):
        names = [nm for _, nm in RC.KAIFA_SE]
        assert [_obis_str(v[1]) for v in vals[0::2]] == [o for o, _ in RC.KAIFA_SE]
        vals = vals[1::2]
        kind = "obis"
    else:
        names = RC.KAIFA_LAYOUTS[n]
        kind = "positional"
    values = {}
    for nm, v in zip(names, vals):
        if nm in RC.TEXT_FIELDS:
            values[nm] = v[1].decode()
        elif nm == "meter_datetime":
            values[nm] = _dt_from12(v[1])
        else:
            values[nm] = v[1]
    return kind, names, values


def abstract_kamstrup(body: bytes):
    toks = RC.tokens(body)
    ver = toks[1][1].decode()
    rev = {v: k for k, v in RC.KAM_OBIS.items()}
    names, values, pad = [], {}, {}
    i = 2
    while i < len(toks):
        if toks[i][0] == "null":
            pad[len(names)] = pad.get(len(names), 0) + 1
            i += 1
            continue
        nm = rev[_obis_str(toks[i][1])]
        v = toks[i + 1]
        names.append(nm)
        values[nm] = v[1].decode() if v[0] == "vis" else (_dt_from12(v[1]) if v[0] == "octets" else v[1])
        i += 2
    return ver, names, values, pad


def bind_fixtures() -> int:
    """Every captured notification body of tests/test_{aidon,kaifa,kamstrup}.py is re-encoded from its abstract
    description by the reference encoders and must match byte for byte."""
    import tests.test_aidon as ta
    import tests.test_kaifa as tk
    import tests.test_kamstrup as tm

    n = 0
    for mod, fn in ((ta, "aidon"), (tk, "kaifa"), (tm, "kamstrup")):
        for name in dir(mod):
            if not name.startswith("NOTIFICATION_BODY"):
                continue
            body = bytes.fromhex(getattr(mod, name).replace(" ", ""))
            assert RC.encode_tokens(RC.tokens(body)) == body, name
            if fn == "aidon":
                assert RC.aidon_body(abstract_aidon(body)) == body, name
            elif fn == "kaifa":
                kind, names, values = abstract_kaifa(body)
                again = RC.kaifa_body_obis(values) if kind == "obis" else RC.kaifa_body_positional(names, values)
                assert again == body, name
            else:
                ver, names, values, pad = abstract_kamstrup(body)
                assert RC.kam_body(names, values, ver, pad) == body, name
            n += 1
    return n


def fixtures():
    """(meter, name, body bytes, frame bytes) for every captured message of the three decoder test modules."""
    import tests.test_aidon as ta
    import tests.test_kaifa as tk
    import tests.test_kamstrup as tm

    out = []
    for mod, meter in ((ta, "aidon"), (tk, "kaifa"), (tm, "kamstrup")):
        for name in sorted(dir(mod)):
            if name.startswith("NOTIFICATION_BODY"):
                body = bytes.fromhex(getattr(mod, name).replace(" ", ""))
                fname = name[len("NOTIFICATION_BODY_"):].lower()
                frame = getattr(mod, fname, None)
                out.append((meter, fname, body, frame))
    return out


# ---- value alphabets ---------------------------------------------------------------------------------------------

def int_alphabet(typ: str, seed: int = 0, extra: int = 3):
    lo, hi = RC.RANGE[typ]
    vals = {lo, hi, 0, 1, 2, 9, 10, 57, 99, 100, 999, 1000, 1001, 12345}
    bits = 32 if typ == "u32" else 16
    for k in range(bits):
        vals.add(2**k)
        vals.add(2**k - 1)
        vals.add(2**k + 1)
    if lo < 0:
        vals |= {-1, -2, -10, -100, -999, -1000, lo + 1, -(2**14), -(2**14) - 1}
    rnd = random.Random(seed * 7919 + bits)
    for _ in range(extra):
        vals.add(rnd.randint(lo, hi))
    return sorted(v for v in vals if lo <= v <= hi)


SCALERS = (-3, -2, -1, 0, 1, 2, 3)


_WORDS = None


def code_words(maxlen: int = 30):
    """Dictionary of 'magic' strings harvested from the implementation under test: every identifier and string literal
    of han/*.py (attribute names such as 'value', 'datetime', 'obis', format strings, unit names...).  Text fields that
    happen to contain such a word must still decode verbatim."""
    global _WORDS
    if _WORDS is None:
        import glob
        import io
        import os
        import tokenize

        from mc import core

        words = set()
        for path in sorted(glob.glob(os.path.join(core.REPO, "han", "*.py"))):
            try:
                with open(path, "rb") as fh:
                    for tok in tokenize.tokenize(fh.readline):
                        if tok.type == tokenize.NAME:
                            words.add(tok.string)
                        elif tok.type == tokenize.STRING:
                            try:
                                v = eval(tok.string, {}, {})  # noqa: S307  (literal of the source under test)
                            except Exception:  # noqa: BLE001
                                continue
                            if isinstance(v, str):
                                words.update(v.split())
                                words.add(v)
            except (OSError, tokenize.TokenError, SyntaxError):
                continue
        words |= {"None", "True", "null", "%s", "{}", "{0}", "\\", "'", '"', "0x", "1e9", "nan", "inf", "-1", "value", "datetime", "VALUE"}
        _WORDS = sorted(w for w in words if w and w.isascii() and w.isprintable() and len(w) <= maxlen)
    return _WORDS


def word_texts(limit: int | None = None):
    """Each code word alone, embedded ('6525 best <word>') and doubled."""
    out = []
    for w in code_words(16):
        out.append(w)
        if len(w) <= 10:
            out.append(("ab " + w + " 9")[:16])
    return out if limit is None else out[:limit]


def edge_texts():
    """Identification strings with every ASCII character (0x00..0x7F) alone, first, last, doubled at the end and in the
    middle: padding, terminator and white-space characters are where 'verbatim' goes wrong."""
    out = []
    for c in range(0x80):
        ch = chr(c)
        out += [ch, ch + "AB", "AB" + ch, "AB" + ch + ch, "A" + ch + "B"]
    out += ["7359992892" + "\0" * 6, " " * 16, "\0" * 16, "\r\n", "AB\r\n", "\t6525\t"]
    return list(dict.fromkeys(out))
