"""python3 mc/harvest.py <Cnn> <seed-id>  - collect a sub-agent's seeded change from /tmp/wt-<Cnn> into /verif/seeded/<seed-id>/
and confirm it independently: demo fails with the change, passes without it (in a second scratch worktree)."""
import json, os, shutil, subprocess, sys
pid, sid = sys.argv[1], sys.argv[2]
wt = os.environ.get("SEED_WT", f"/tmp/wt-{pid}")
dst = f"/verif/seeded/{sid}"
os.makedirs(dst, exist_ok=True)
diff = subprocess.run(["git", "-C", wt, "diff", "--", "han"], capture_output=True, text=True).stdout
open(f"{dst}/patch.diff", "w").write(diff)
demo = f"demo_{pid}.py"
src = open(f"{wt}/{demo}").read().replace(wt, "__TREE__")
open(f"{dst}/{demo}", "w").write(src)
if os.path.exists(f"{wt}/CHANGE.md"):
    shutil.copy(f"{wt}/CHANGE.md", f"{dst}/CHANGE.md")
def run_demo(tree):
    tmp = f"{tree}/_demo_run.py"
    open(tmp, "w").write(src.replace("__TREE__", tree))
    r = subprocess.run(["/venv/bin/python", "-B", tmp], cwd=tree, capture_output=True, text=True, timeout=1200)
    os.remove(tmp)
    return r.returncode, (r.stdout + r.stderr)[-600:]
clean = f"/tmp/confirm-{sid}"
subprocess.run(["git", "-C", "/repo", "worktree", "add", "-q", "--detach", clean, "HEAD"], check=True)
try:
    rc_clean, out_clean = run_demo(clean)
    subprocess.run(["git", "-C", clean, "apply", "--whitespace=nowarn", f"{dst}/patch.diff"], check=True)
    rc_mut, out_mut = run_demo(clean)
    t = subprocess.run(["/venv/bin/python", "-m", "pytest", "-q", "-p", "no:cacheprovider"], cwd=clean, capture_output=True, text=True)
    tests = t.stdout.strip().splitlines()[-1]
finally:
    subprocess.run(["git", "-C", "/repo", "worktree", "remove", "--force", clean])
print(f"demo on clean tree: exit {rc_clean}; with patch: exit {rc_mut}; repo tests with patch: {tests}")
print(out_mut[-300:])
meta = {"id": sid, "property": pid, "origin": "independent sub-agent given only the property text and a scratch worktree",
        "confirmed": {"demo_exit_clean_tree": rc_clean, "demo_exit_with_patch": rc_mut, "repo_tests_with_patch": tests},
        "demo": demo, "demo_usage": "replace __TREE__ in the demo by the path of the tree to test, then run it with /venv/bin/python"}
json.dump(meta, open(f"{dst}/meta.json", "w"), indent=1)
ok = rc_clean == 0 and rc_mut == 1 and "passed" in tests and "failed" not in tests
print("CONFIRMED" if ok else "NOT CONFIRMED")
