"""python3 mc/kf.py fixed|open <property> <commit|-> <key> <what>  - append an entry to KNOWN_FINDINGS.json"""
import json, os, sys
path = os.path.join(os.path.dirname(os.path.dirname(os.path.abspath(__file__))), "KNOWN_FINDINGS.json")
status, prop, commit, key, what = sys.argv[1:6]
k = json.load(open(path))
e = {"property": prop, "status": status, "key": key}
if status == "fixed":
    e["commit"] = commit
    e["line"] = f"fixed: property={prop} {commit} {what}"
else:
    e["what"] = what
    e["line"] = f"KNOWN-FINDING: property={prop} {what}"
k["findings"].append(e)
json.dump(k, open(path, "w"), indent=1)
print(e["line"])
