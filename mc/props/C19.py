"""C19 - reader memory stays bounded on endless streams.
E4: for every prefix (<=1 token) and cycle (<=k tokens) over token alphabets of chunk patterns, pump the real reader
until its complete state repeats (then the run is a loop: boundedness decided for the infinite stream) while checking
the deep size after every read() against a constant bound + 2 x chunk."""
from __future__ import annotations

import itertools

from mc import core, lasso, par
from mc import hdlcx as X
from mc import p1x as P
from mc.ref import hdlc as RH

H_MSG = 4096  # largest raw (stuffed) HDLC message
P_MSG = 8192


def h_tokens():
    pool = X.frame_pool()
    return {
        "flag": b"\x7e", "flags64": b"\x7e" * 64, "junk": b"\x11", "esc": b"\x7d", "hdr2047": bytes.fromhex("a7ff0121"),
        "run4k": b"\x55" * 4096, "frame": b"\x7e" + pool["short"] + b"\x7e", "trunc": b"\x7e" + pool["short"][:9],
        "sframe": b"\x7e" + RH.stuff(pool["flagesc"]) + b"\x7e",
        "segframe": b"\x7e" + pool["segbit"] + b"\x7e", "hdrframe": b"\x7e" + pool["hdr_only"] + b"\x7e",
    }


def p_tokens():
    pool = P.readout_pool()
    return {
        "slash": b"/", "ident": b"/ABC5xyz\r\n", "line": b"1-0:1.8.0(00000896.020*kWh)\r\n", "end": b"!\r\n", "x100": b"x" * 100,
        "lf": b"\n", "hi": b"\x80", "readout": pool["six_crc"], "bang": b"!", "readout_nocs": pool["noid_nocs"],
    }


def h_bound(chunk: int) -> int:
    return 4 * H_MSG + 4096 + 2 * chunk


def p_bound(chunk: int) -> int:
    return 4 * P_MSG + 4096 + 2 * chunk


def chunk_forms(pre, cyc, toks, join_n):
    """(name, prefix chunks, cycle chunks): per token, per cycle, per join_n cycles."""
    pc = [toks[t] for t in pre]
    cc = [toks[t] for t in cyc]
    whole = b"".join(cc)
    forms = [("per-token", pc, cc), ("per-cycle", pc, [whole])]
    seen = {1}
    for n in join_n:
        n_eff = max(1, min(n, (64 << 10) // max(len(whole), 1)))  # chunks of at most 64 KiB
        if n_eff not in seen:
            seen.add(n_eff)
            forms.append((f"per-{n}-cycles", pc, [whole * n_eff]))
    return forms


def run_lasso(reader: str, cfg, pre, cyc, form: str, max_bytes: int):
    if reader == "hdlc":
        toks, bound, make = h_tokens(), h_bound, (lambda: X.new_reader(tuple(cfg)))
    else:
        toks, bound, make = p_tokens(), p_bound, P.new_reader
    forms = {f[0]: f for f in chunk_forms(pre, cyc, toks, (16, 256, 4096))}
    _, pc, cc = forms[form]
    clen = sum(len(c) for c in cc)
    return lasso.pump(make, pc, cc, bound, max_bytes, max_cycles=max(64, 4 * max_bytes // clen))


def judge(verdict, info):
    if verdict == "exceeded":
        return f"deep size {info['size']} exceeds the bound {info['bound']} after {info['fed']} bytes (cycle {info['cycle']})"
    if verdict == "undecided":
        if info["size_end"] - info["size_half"] > 2048:
            return (f"state never repeats and deep size still grows ({info['size_half']} -> {info['size_end']} over the second half of "
                    f"{info['fed']} bytes)")
    return None


def replay(case: dict) -> list[str]:
    v, info = run_lasso(case["reader"], case.get("cfg"), case["prefix"], case["cycle"], case["form"], case["max_bytes"])
    m = judge(v, info)
    return [f"{case['reader']} {case.get('cfg')} prefix={case['prefix']} cycle={case['cycle']} {case['form']}: {m}"] if m else []


def _work(task) -> core.Part:
    reader, cfg, pre, cycles, join_n, max_bytes = task
    p = core.Part()
    toks = h_tokens() if reader == "hdlc" else p_tokens()
    for cyc in cycles:
        for form, _, _ in chunk_forms(pre, cyc, toks, join_n):
            v, info = run_lasso(reader, cfg, pre, cyc, form, max_bytes)
            p.add("executions")
            p.add("bytes_fed", info.get("fed", 0))
            p.out(v)
            if v == "lasso":
                p.add("lassos_closed")
                p.add("loop_len_total", info["loop_to"] - info["loop_from"])
                p.d.add((reader, cfg, pre, cyc, form, info["loop_from"], info["loop_to"]))
            m = judge(v, info)
            if m:
                name = f"{reader}{'' if cfg is None else ':' + X.cfg_name(cfg)}"
                p.viol("unbounded", f"unbounded:{name}:{'+'.join(pre)}|{'+'.join(cyc)}:{form}", f"{name} prefix={list(pre)} cycle={list(cyc)} {form}: {m}",
                       {"reader": reader, "cfg": None if cfg is None else list(cfg), "prefix": list(pre), "cycle": list(cyc), "form": form, "max_bytes": max_bytes},
                       size=sum(len(toks[t]) for t in pre + cyc))
    return p


def main(run: core.Run) -> int:
    q = run.quick
    run.rule = ("lasso = (prefix of <=1 token) . (cycle of <=k tokens)^omega over 9-token alphabets of chunk patterns per reader, chunked per token / per cycle / "
                "per n cycles; each run on the real reader until its complete snapshot repeats (bounded for the infinite stream) or the size bound is exceeded; "
                "non-trivial = distinct lassos whose loop was closed (state repetition found)")
    L = 2 if q else 3
    max_bytes = (512 << 10) if q else (16 << 20)
    join_n = (16,) if q else (16, 256)
    tasks = []
    ht, pt = list(h_tokens()), list(p_tokens())
    for cfg in X.CFGS:
        for pre in [()] + [(t,) for t in ht]:
            cycles = [c for n in range(1, L + 1) for c in itertools.product(ht, repeat=n) if n < 3 or not pre]  # 3-token cycles without prefix
            for i in range(0, len(cycles), 30):
                tasks.append(("hdlc", cfg, pre, cycles[i:i + 30], join_n, max_bytes))
    for pre in [()] + [(t,) for t in pt]:
        cycles = [c for n in range(1, L + 1) for c in itertools.product(pt, repeat=n) if n < 3 or not pre]
        for i in range(0, len(cycles), 30):
            tasks.append(("p1", None, pre, cycles[i:i + 30], join_n, max_bytes))
    run.log(f"{len(tasks)} partitions")
    run.merge(par.pmap(_work, tasks, seed=run.seed))
    tot = run.total
    tot.sample({"reader": "hdlc stuffing=1,abort=0", "prefix": [], "cycle": ["flag"], "form": "per-token", "meaning": "endless inter-frame flag fill, one octet per read()"})
    tot.sample({"reader": "p1", "prefix": ["slash"], "cycle": ["x100"], "meaning": "'/' followed by megabytes without LF"})
    tot.sample({"reader": "p1", "prefix": ["ident"], "cycle": ["line"], "meaning": "identification line + endless data lines, never an end line"})
    run.bounds = {"prefix_tokens": "<=1 (none for 3-token cycles)", "cycle_tokens": f"<={L}", "horizon": f"{max_bytes} bytes per lasso if the state does not repeat earlier",
                  "size_bound": "HDLC 4*4096+4096+2*chunk, P1 4*8192+4096+2*chunk (deep sys.getsizeof over the reader's object graph, after every read())"}
    run.assumptions = ["the reader is deterministic and its future depends only on the snapshotted attributes: a repeated snapshot at a cycle boundary closes the loop",
                       "leaks that need an aperiodic driving input or a cycle longer than the bound are out of reach"]
    ex = tot.c.get("executions", 0)
    return run.finish(states=max(tot.c.get("loop_len_total", 0), 1), transitions=tot.c.get("bytes_fed", 0), traces=ex, evaluations=ex, distinct_nontrivial=len(tot.d))
