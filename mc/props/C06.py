"""C06 - HDLC reader output does not depend on chunking.
(a) E2 graph + chunk commutation over octet alphabets, (a') the same over the token alphabet,
(b) E3: every <=k-edit stream of the realistic pool, one-shot vs octet-wise vs every single cut (vs pairs)."""
from __future__ import annotations

from mc import core, devs, graph, par
from mc import hdlcx as X
from mc.props import C01
from mc.ref import hdlc as RHm


_QUICK = True


def observe(cfg, chunks):
    frames, _ = X.feed(cfg, chunks)
    return X.obs(frames)


def replay(case: dict) -> list[str]:
    cfg = tuple(case["cfg"])
    S = bytes.fromhex(case["stream"])
    a = [bytes.fromhex(c) for c in case["chunks_a"]]
    b = [bytes.fromhex(c) for c in case["chunks_b"]]
    if case.get("variant"):
        one = lambda f: (f.as_bytes, f.is_valid, f.payload)  # noqa: E731
        tw = b"".join(b"\x7e" + RHm.wire(f, cfg[0]) + b"\x7e" for f in (X.frame_pool()["addr24"], X.frame_pool()["segbit"])) * 2
        ref = observe(cfg, a)
        try:
            got = {v: fin for v, _, fin in X.feed_variants(lambda: X.new_reader(cfg), b, one, twin_stream=tw)}
        except AssertionError as ex:
            return [f"[{X.cfg_name(cfg)}] {ex}"]
        fin = got.get(case["variant"])
        if fin != tuple(ref):
            return [f"[{X.cfg_name(cfg)}] feeding variant {case['variant']!r} returns {_fmt(fin or ())[:3]}, plain one-shot feeding returns {_fmt(ref)[:3]}"]
        return []
    oa, ob = observe(cfg, a), observe(cfg, b)
    if oa != ob:
        return [f"[{X.cfg_name(cfg)}] stream {S.hex() if len(S) < 200 else '...'}: chunking A returns {_fmt(oa)}, chunking B returns {_fmt(ob)}"]
    return []


def _fmt(o):
    return [(b.hex(), v, None if p is None else p.hex()) for b, v, p in o]


def _case(cfg, S, a, b):
    def enc(ch):
        if len(ch) > 80:
            return None
        return [c.hex() for c in ch]
    ea, eb = enc(a), enc(b)
    if ea is None:
        a = [S]
        ea = enc(a)
    if eb is None:  # re-express octet-wise chunking compactly is not possible; keep it (replay file gets long)
        eb = [c.hex() for c in b]
    return {"cfg": list(cfg), "stream": S.hex(), "chunks_a": ea, "chunks_b": eb}


def _graph_phase(run, cfg, events, depth, label):
    p = core.Part()
    res = graph.explore(lambda: X.new_reader(cfg), events, X.obs, depth, seed=run.seed)
    for cp in res.crashed:
        p.merge(cp)
    p.add("graph_states", res.states)
    p.add("graph_transitions", res.transitions)
    p.add("chunk_runs", res.chunk_runs)
    p.add("edges_with_output", res.edges_with_output)
    p.add("snapshot_only_differences", res.snap_only)
    p.add("chunk_only_states", res.extra_nodes)
    for hist, idx, exp, got in res.bad:
        chunk = b"".join(events[i] for i in idx)
        S = b"".join(hist) + chunk
        a = list(hist) + [events[i] for i in idx]
        b = list(hist) + [chunk]
        p.viol("chunking", f"chunking:{X.cfg_name(cfg)}:{S.hex()}:{len(hist)}",
               f"[{X.cfg_name(cfg)}] {label}: after {b''.join(hist).hex() or '(nothing)'} event-wise, read({chunk.hex()}) "
               f"returns {_fmt(got)} but event-at-a-time returns {_fmt(exp)}", _case(cfg, S, a, b), size=len(S))
    run.log(f"{label} {X.cfg_name(cfg)} depth {depth}: states={res.states} levels={res.levels} transitions={res.transitions} "
            f"chunk_runs={res.chunk_runs} snapshot-only={res.snap_only} mismatches={len(res.bad)}")
    return p


def _work_e3(task) -> core.Part:
    label, S0, spans, cfgs, k, pairs = task
    p = core.Part()
    for ed, S in devs.edits_upto(S0, k, devs.HDLC_SUBS, devs.HDLC_INS, spans):
        n = len(S)
        p.add("streams")
        for cfg in cfgs:
            ref_chunks = [S]
            ref = observe(cfg, ref_chunks)
            p.add("executions")
            if ref:
                p.add("nontrivial")
            p.out(f"frames={min(len(ref), 3)}{'+' if len(ref) > 3 else ''},valid={sum(1 for x in ref if x[1])}")
            alts = [("bytewise", X.bytewise(S))] + [(f"cut{c[0]}", X.split(S, c)) for c in X.single_cuts(n) if c]
            if pairs and len(ed) <= (1 if (n <= 24 and not _QUICK) else 0) and n <= 60:
                alts += [(f"cut{c[0]},{c[1]}", X.split(S, c)) for c in X.pair_cuts(n)]
            for how, chunks in alts:
                got = observe(cfg, chunks)
                p.add("executions")
                p.add("events", len(chunks))
                if got != ref:
                    p.viol("chunking", f"chunking:{X.cfg_name(cfg)}:{S.hex() if n <= 64 else label + str(list(ed))}:{how}",
                           f"[{X.cfg_name(cfg)}] {label} edits={list(ed)} input {S.hex() if n <= 80 else '(long)'}: one-shot returns "
                           f"{_fmt(ref)} but {how} returns {_fmt(got)}", _case(cfg, S, ref_chunks, chunks), size=n)
                    if p.full("chunking"):
                        p.capped = True
                        return p
    return p


def _work_long(task) -> core.Part:
    """Over-long frames: 2047-octet base with one inserted octet, cuts near 2047/2048 and fixed sizes."""
    cfg = task
    p = core.Part()
    pool = X.frame_pool()
    from mc.ref import hdlc as RH
    w = RH.wire(pool["max2047"], cfg[0])
    tail = RH.wire(pool["short"], cfg[0])
    bases = [("max2047+short", b"\x7e" + w + b"\x7e" + tail + b"\x7e")]
    for ins_at in (1, 9, 1000, len(w)):
        for x in (0x00, 0x7D, 0x7E):
            bases.append((f"overlong(ins {x:02x}@{ins_at})+short", b"\x7e" + w[:ins_at] + bytes([x]) + w[ins_at:] + b"\x7e" + tail + b"\x7e" + tail + b"\x7e"))
    bases.append(("noflag3000+short", b"\x7e" + bytes(3000) + b"\x7e" + tail + b"\x7e"))
    for label, S in bases:
        n = len(S)
        ref = observe(cfg, [S])
        p.add("executions")
        if ref:
            p.add("nontrivial")
        cuts = sorted(set([1, 2, 3, 9, 10, 11, 1000, 2040] + list(range(2044, 2056)) + [len(w), len(w) + 1, len(w) + 2, len(w) + 3, n - 2, n - 1]))
        alts = [(f"cut{c}", X.split(S, (c,))) for c in cuts if 0 < c < n]
        alts += [(f"fixed{k}", X.fixed(S, k)) for k in (2, 3, 7, 64, 1000, 2047, 2048)] + [("bytewise", X.bytewise(S))]
        for how, chunks in alts:
            got = observe(cfg, chunks)
            p.add("executions")
            p.add("events", len(chunks))
            if got != ref:
                c = {"cfg": list(cfg), "stream": S.hex(), "chunks_a": [S.hex()], "chunks_b": [x.hex() for x in chunks]} if len(chunks) < 100 else \
                    {"cfg": list(cfg), "stream": S.hex(), "chunks_a": [S.hex()], "chunks_b": [x.hex() for x in chunks]}
                p.viol("chunking", f"chunking:{X.cfg_name(cfg)}:{label}:{how}",
                       f"[{X.cfg_name(cfg)}] {label}: one-shot returns {len(ref)} frame(s) but {how} returns {len(got)}: {_fmt(got)[:2]}", c, size=n)
    return p


def _cmp(p, cfg, S, label, how, chunks, ref):
    got = observe(cfg, chunks)
    p.add("executions")
    p.add("events", len(chunks))
    if got != ref:
        p.viol("chunking", f"chunking:{X.cfg_name(cfg)}:{label}:{how}", f"[{X.cfg_name(cfg)}] {label}: one-shot returns {_fmt(ref)[:2]!r:.200} but {how} returns {_fmt(got)[:2]!r:.200}",
               {"cfg": list(cfg), "stream": S.hex(), "chunks_a": [S.hex()], "chunks_b": [c.hex() for c in chunks]}, size=len(S))


def _work_variants(task) -> core.Part:
    """Feeding variants that must not matter (caller re-uses its buffer, empty chunks, a second reader instance fed in
    alternation) and stability of returned frames (observed at return time and again at the end)."""
    label, S, cfgs = task
    p = core.Part()
    one = lambda f: (f.as_bytes, f.is_valid, f.payload)  # noqa: E731
    n = len(S)
    for cfg in cfgs:
        ref = None
        for how, chunks in (("bytewise", X.bytewise(S)), ("fixed3", X.fixed(S, 3)), ("halves", X.split(S, (n // 2,))), ("oneshot", [S])):
            tw = b"".join(b"\x7e" + RHm.wire(f, cfg[0]) + b"\x7e" for f in (X.frame_pool()["addr24"], X.frame_pool()["segbit"])) * 2
            for vname, early, final in X.feed_variants(lambda: X.new_reader(cfg), chunks, one, twin_stream=tw):
                p.add("executions")
                p.add("events", len(chunks))
                if ref is None:
                    ref = final
                    if ref:
                        p.add("nontrivial")
                if early != final:
                    p.viol("unstable_frame", f"unstable:{X.cfg_name(cfg)}:{label}:{how}:{vname}", f"[{X.cfg_name(cfg)}] {label} ({how}, {vname}): a returned frame changed after later read() calls: "
                           f"{_fmt(early)[:2]!r:.150} became {_fmt(final)[:2]!r:.150}", {"cfg": list(cfg), "stream": S.hex(), "chunks_a": [S.hex()], "chunks_b": [c.hex() for c in chunks]}, size=n)
                elif final != ref:
                    p.viol("chunking", f"chunking:{X.cfg_name(cfg)}:{label}:{how}:{vname}", f"[{X.cfg_name(cfg)}] {label}: feeding variant '{vname}' ({how}) returns {_fmt(final)[:2]!r:.150}, plain one-shot feeding returns {_fmt(ref)[:2]!r:.150}",
                           {"cfg": list(cfg), "stream": S.hex(), "chunks_a": [S.hex()], "chunks_b": [c.hex() for c in chunks], "variant": vname}, size=n)
        if p.full("chunking"):
            break
    return p


def _work_mid(task) -> core.Part:
    """Mid-size frames (100-300 octets): every pair of cuts with the first cut in this task's range."""
    cfg, label, S, lo, hi = task
    p = core.Part()
    n = len(S)
    ref = observe(cfg, [S])
    p.add("executions")
    if lo == 1:
        p.add("nontrivial")
        _cmp(p, cfg, S, label, "bytewise", X.bytewise(S), ref)
        for k in (2, 3, 7, 16, 32, 63, 64, 65, 100, 128):
            _cmp(p, cfg, S, label, f"fixed{k}", X.fixed(S, k), ref)
    for i in range(lo, min(hi, n)):
        _cmp(p, cfg, S, label, f"cut{i}", X.split(S, (i,)), ref)
        for j in range(i + 1, n):
            _cmp(p, cfg, S, label, f"cut{i},{j}", X.split(S, (i, j)), ref)
        if p.full("chunking"):
            p.capped = True
            break
    return p


def _work_sweep(task) -> core.Part:
    """Frames covering every octet value in every check-sequence position; one-shot vs octet-wise vs every single cut."""
    cfg, lo, hi = task
    p = core.Part()
    pool = X.frame_pool()
    from mc.ref import hdlc as RH
    for label, fr in X.fcs_sweep_frames()[lo:hi]:
        S = b"\x7e" + RH.wire(fr, cfg[0]) + b"\x7e\x7e" + RH.wire(pool["short"], cfg[0]) + b"\x7e"
        ref = observe(cfg, [S])
        p.add("executions")
        if ref:
            p.add("nontrivial")
        _cmp(p, cfg, S, label, "bytewise", X.bytewise(S), ref)
        for i in range(1, len(S)):
            _cmp(p, cfg, S, label, f"cut{i}", X.split(S, (i,)), ref)
        if p.full("chunking"):
            p.capped = True
            break
    return p


def _work_history(task) -> core.Part:
    """A long clean history (N frames with their own flags) followed by a 'twist' (idle noise, frames sharing a flag, an
    aborted frame): one-shot vs a cut at each of the last ~150 positions vs octet-wise tail.  Counters that need hundreds
    of frames of history before the chunking starts to matter show here."""
    cfg, n = task
    from mc.ref import hdlc as RH
    p = core.Part()
    pool = X.frame_pool()
    a, b = RH.wire(pool["short"], cfg[0]), RH.wire(pool["hdr_only"], cfg[0])
    hist = b"".join(b"\x7e" + (a if i % 2 else b) + b"\x7e" for i in range(n))
    twists = {"idle noise": b"\x11\x22" + b"\x7e" + a + b"\x7e\x7e" + b + b"\x7e", "shared flags": a + b"\x7e" + b + b"\x7e" + a + b"\x7e",
              "aborted frame": b"\x7e" + a[:9] + b"\x7d\x7e" + a + b"\x7e\x7e" + b + b"\x7e", "flag fill": b"\x7e" * 5 + a + b"\x7e"}
    for tname, tw in twists.items():
        S = hist + tw
        ref = observe(cfg, [S])
        p.add("executions")
        p.add("nontrivial")
        lo = max(1, len(hist) - 40)
        for c in range(lo, len(S)):
            _cmp(p, cfg, S, f"{n} frames + {tname}", f"cut{c}", X.split(S, (c,)), ref)
        _cmp(p, cfg, S, f"{n} frames + {tname}", "history one-shot, tail octet-wise", [S[:lo]] + X.bytewise(S[lo:]), ref)
        _cmp(p, cfg, S, f"{n} frames + {tname}", "fixed64", X.fixed(S, 64), ref)
        if p.full("chunking"):
            break
    return p


def _work_aligned(task) -> core.Part:
    """2047-octet frame: pairs of cuts aligned with escape/flag octets, middle chunk sizes around powers of two."""
    cfg = task
    p = core.Part()
    pool = X.frame_pool()
    from mc.ref import hdlc as RH
    from mc.props.C02 import CONTENTS
    for cname in ("mix5e5d", "ramp"):
        fr = RH.build_frame(0xA, 0, b"\x01", b"\x21", 0x13, CONTENTS[cname](2038))
        S = b"\x7e" + RH.wire(fr, cfg[0]) + b"\x7e" + RH.wire(pool["short"], cfg[0]) + b"\x7e"
        ref = observe(cfg, [S])
        p.add("executions")
        if ref:
            p.add("nontrivial")
        marks_from = [0, len(S) // 2]
        for base in marks_from:
            for (i, j) in X.escape_aligned_cuts(S[base:], 6):
                _cmp(p, cfg, S, f"max2047({cname})+short", f"cut{base + i},{base + j}", X.split(S, (base + i, base + j)), ref)
    return p


def main(run: core.Run) -> int:
    global _QUICK
    q = _QUICK = run.quick
    run.rule = ("graph: every reachable reader state (full snapshot digest) x every event, plus from every state every chunk of 2..k "
                "events in one read(); E3: every <=k-edit stream, one-shot vs octet-wise vs every single cut; non-trivial = distinct "
                "(configuration, stream) whose one-shot run returns >=1 frame, plus graph edges that return a frame")
    N, NS, NT = (8, 7, 6) if q else (10, 8, 7)
    run.bounds = {"graph_octets": f"depth {N} over Sigma_h (no stuffing), depth {NS} over Sigma_h+ (stuffing)",
                  "graph_tokens": f"depth {NT} over the 8-token alphabet", "deviations": "<=1 edit" if q else "<=2 edits on single frames, <=1 otherwise",
                  "feeding_variants": "caller wipes its bytearray after each read(), empty chunks in between, a twin reader instance fed in alternation; frames observed at return time and again at the end", "long_history": "1..260 (thorough 1100) clean frames, then idle noise / shared flags / aborted frame / flag fill: a cut at each of the last ~150 positions",
                  "mid_size": "120-octet" + ("" if q else " and 300-octet") + " frames with flag/escape octets in the information field: every pair of cuts, fixed sizes up to 128",
                  "check_sequence_sweep": "685 frames covering every octet value in every FCS/HCS position: every single cut", "escape_aligned": "2047-octet frames: cut pairs aligned with 7D/7E, middle chunk 1..1024"}
    parts = []
    for cfg in X.CFGS:
        alpha = X.SIGMA_HP if cfg[0] else X.SIGMA_H
        parts.append(_graph_phase(run, cfg, [bytes([a]) for a in alpha], NS if cfg[0] else N, "octet graph"))
    for cfg in X.CFGS:
        parts.append(_graph_phase(run, cfg, [X.TOK[t] for t in X.TOKN], NT, "token graph"))
    run.merge(parts)
    e3 = []
    for stuffing in (False, True):
        cfgs = tuple(c for c in X.CFGS if c[0] == stuffing) if q else X.CFGS
        for label, S, spans in C01.base_streams(stuffing, run.tier):
            nfr = label.count("+") + 1
            k = 2 if (not q and nfr == 1) else 1
            e3.append((f"{'stuffed' if stuffing else 'plain'}:{label}", S, spans, cfgs, k, True))
    run.log(f"E3: {len(e3)} base streams")
    run.merge(par.pmap(_work_e3, e3, seed=run.seed))
    run.merge(par.pmap(_work_long, list(X.CFGS), seed=run.seed))
    vt = [(f"{'stuffed' if st else 'plain'}:{label}", S_, X.CFGS) for st in (False, True) for label, S_, _ in C01.base_streams(st, "quick")]
    vt += [(label, S_, X.CFGS) for st in (False, True) for label, S_ in X.midsize_streams(st)]
    run.merge(par.pmap(_work_variants, vt, seed=run.seed))
    mid = []
    for cfg in X.CFGS:
        for label, S in X.midsize_streams(cfg[0]):
            if q and "300" in label:
                continue
            step = 8
            mid += [(cfg, label, S, lo, lo + step) for lo in range(1, len(S), step)]
    run.log(f"mid-size frames, every pair of cuts: {len(mid)} partitions")
    run.merge(par.pmap(_work_mid, mid, seed=run.seed))
    nsw = len(X.fcs_sweep_frames())
    run.merge(par.pmap(_work_sweep, [(cfg, lo, lo + 43) for cfg in X.CFGS for lo in range(0, nsw, 43)], seed=run.seed))
    run.merge(par.pmap(_work_aligned, list(X.CFGS), seed=run.seed))
    run.merge(par.pmap(_work_history, [(cfg, n) for cfg in X.CFGS for n in ((1, 8, 40, 130, 260) if q else (1, 8, 40, 130, 260, 520, 1100))], seed=run.seed))
    tot = run.total
    tot.sample({"cfg": "stuffing=0,abort=0", "stream": "7e" + X.F7.hex() + "7e", "chunkings": ["one-shot", "octet-wise", "cut@k for k=1..8"],
                "all_return": [X.F7.hex()]})
    tot.sample({"graph_node": "after 7e 78 07 (octet-wise)", "chunk": "07 07 01 01 07 7e in one read()", "compared_with": "path of 6 single-octet edges"})
    run.assumptions = ["snapshot digests cover every attribute reachable from the reader (mc/snap.py), so merged states have identical futures",
                       "the induction over chunks needs every chunk to start in a graph node: chunk-only states are added and explored (count reported)"]
    c = tot.c
    ex = c.get("executions", 0) + c.get("chunk_runs", 0) + c.get("graph_transitions", 0)
    return run.finish(states=c.get("graph_states", 0), transitions=c.get("graph_transitions", 0) + c.get("chunk_runs", 0) + c.get("events", 0),
                      traces=ex, evaluations=ex, distinct_nontrivial=c.get("nontrivial", 0) + c.get("edges_with_output", 0))
