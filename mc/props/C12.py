"""C12 - AutoDecoder picks a decoder that accepts the message, across any history.
E2 to a fixpoint: BFS over the real AutoDecoder (state = complete snapshot, i.e. the remembered decoder) with one
event per pool message; every (reachable state, event) transition is executed and judged against the seven decoder
functions called individually - this covers histories of any length over the pool."""
from __future__ import annotations

from mc import autox, budget, core, par
from mc import hdlcx as X
from mc.ref import cosem as RC
from mc.ref import hdlc as RH
from mc.snap import digest

_POOL = None
_last_result: dict = {}
THOROUGH_POOL = False


def pool():
    global _POOL
    if _POOL is None:
        gen = autox.genuine_pool()
        ev = {k: (m, own) for k, (m, own) in gen.items()}
        for k, m in autox.junk_pool(gen).items():
            ev[k] = (m, None)
        if THOROUGH_POOL:
            for k in sorted(x for x in gen if x.startswith("fix.")):
                m = gen[k][0]
                for i in range(1, len(m), 8):
                    ev[f"junk.trunc{i}.{k}"] = (m[:i], None)
                for i in range(min(12, len(m))):
                    for r in (0x00, 0x01, 0x02, 0x09, 0x0A, 0x0C, 0xFF):
                        if r != m[i]:
                            ev[f"junk.sub{i}_{r:02x}.{k}"] = (m[:i] + bytes([r]) + m[i + 1:], None)
        _POOL = (gen, ev, autox.state_makers(gen))
    return _POOL


_GENX = None


def generated_pool():
    """Well-formed lists from the shape generators of C07-C09 (every prefix, rotation and single element of the Aidon
    layouts; Kaifa layouts x value variants; Kamstrup layouts x meter types x padding), frame and bare body:
    key -> (payload, own decoder).  Deterministic, so replay files can name the keys."""
    global _GENX
    if _GENX is None:
        from mc.props import C07, C08, C09

        g = {}
        for lname, base in C07.layouts().items():
            shapes = [base[:k] for k in range(1, len(base) + 1)] + [base[k:] + base[:k] for k in range(1, len(base))] + [[it] for it in base] + [list(reversed(base))]
            for i, items in enumerate(shapes):
                body = RC.aidon_body(items)
                g[f"genx.aidon.{lname}.{i}.body"] = (body, "Aidon_notification_body")
                g[f"genx.aidon.{lname}.{i}.frame"] = (RC.llc(body), "Aidon_frame")
        for lay in (1, 9, 13, 14, 18, "se"):
            names = [n for _, n in RC.KAIFA_SE] if lay == "se" else RC.KAIFA_LAYOUTS[lay]
            for off in (0, 1, 5, 250, 64000):
                v = C08.base_values(names, off)
                body = RC.kaifa_body_obis(v) if lay == "se" else RC.kaifa_body_positional(names, v)
                g[f"genx.kaifa.{lay}.{off}.body"] = (body, "Kaifa_notification_body")
                g[f"genx.kaifa.{lay}.{off}.frame"] = (RC.llc(body, b"\x09\x0c" + RC.dt12(*autox.APDU)), "Kaifa_frame")
        for lay, names in RC.KAM_LAYOUTS.items():
            n = len(names)
            for mi, mt in enumerate(C09.MTYPES):
                for pi, pad in enumerate([None, {0: 1}, {n: 1}, {i: 1 for i in range(n + 1)}, {1: 4}]):
                    if mi > 1 and pi > 1:
                        continue
                    body = RC.kam_body(names, C09.base_values(names, mt), "Kamstrup_V0001", pad or {})
                    g[f"genx.kamstrup.{lay}.{mi}.{pi}.body"] = (body, "Kamstrup_notification_body")
                    g[f"genx.kamstrup.{lay}.{mi}.{pi}.frame"] = (RC.llc(body, b"\x0c" + RC.dt12(*autox.APDU), b"\x00\x00\x00\x00"), "Kamstrup_frame")
        _GENX = g
    return _GENX


def lookup(key):
    gen, ev, makers = pool()
    return ev[key] if key in ev else generated_pool()[key]


def same_result(a, b) -> bool:
    """Dictionary equality that also distinguishes what == does not: the UTC offset / naivety of datetimes, int vs float."""
    if a is None or b is None:
        return a is b
    if not isinstance(a, dict) or not isinstance(b, dict) or a.keys() != b.keys():
        return False
    for k in a:
        x, y = a[k], b[k]
        if type(x) is not type(y) or x != y:
            return False
        if hasattr(x, "utcoffset") and (x.utcoffset() != y.utcoffset() or x.replace(tzinfo=None) != y.replace(tzinfo=None)):
            return False
    return True


def individual(payload: bytes):
    """Each of the seven decoders alone: list of ('ok', dict) | ('exc', name) | ('budget', None)."""
    from han import autodecoder

    out = []
    for _, fn in autodecoder.AutoDecoder.payload_decoder_functions:
        k, v, _ = budget.run_budget(lambda: fn(payload), budget.budget_for(len(payload)) * 2)
        out.append((k, v if k == "ok" else (type(v).__name__ if k == "exc" else None)))
    return out


def wrap_messages(payload: bytes):
    """HdlcFrame (from the real reader) and DlmsMessage wrappers around the payload, when it fits a frame."""
    from han import common

    out = [("DlmsMessage", common.DlmsMessage(payload))]
    if payload and payload.isascii() and b"(" in payload and b"!" not in payload and b"/" not in payload:
        # a P1 data block also travels inside a readout: identification line + block + end line with CRC
        from han import dlde
        from mc.ref import p1 as RP

        R = b"/ABC5xyz\r\n" + payload + b"!"
        try:
            out.append(("DataReadout", dlde.DataReadout(R + RP.crc_text(R) + b"\r\n")))
        except Exception:  # noqa: BLE001
            pass
    if 0 < len(payload) <= 2030:
        fr = RH.build_frame(0xA, 0, b"\x01", b"\x21", 0x13, payload)
        frames, _ = X.feed((True, True), [b"\x7e" + RH.stuff(fr) + b"\x7e"])
        if len(frames) == 1 and frames[0].payload == payload:
            out.append(("HdlcFrame", frames[0]))
    return out


def replay_history(hist):
    """A fresh AutoDecoder driven through the public API by the payloads named in hist."""
    from han import autodecoder

    gen, ev, makers = pool()
    a = autodecoder.AutoDecoder()
    for k in hist:
        a.decode_message_payload(lookup(k)[0])
    return a


def judge(hist, key, history_genuine_same=True):
    """Execute one transition (state reached by hist) --key--> on the real AutoDecoder.
    Returns (violations, escapes, name of remembered decoder afterwards, decoded?)."""
    gen, ev, makers = pool()
    payload, own = lookup(key)
    names = list(autox.DECODER_NAMES)
    viol, esc = [], []
    if isinstance(hist, str) or hist is None:  # replay files of the first version name the state by decoder
        hist = () if hist is None else (next(k for k, (m, o) in sorted(gen.items()) if o == hist and k.startswith("fix.")),)
    try:
        a = replay_history(hist)
        state = a.previous_success_decoder
    except Exception as ex:  # noqa: BLE001
        return [f"history {list(hist)} cannot be replayed: {type(ex).__name__}: {ex}"], [], None, False
    ind = individual(payload)
    acc = [i for i, x in enumerate(ind) if x[0] == "ok"]
    k, res, _ = budget.run_budget(lambda: a.decode_message_payload(payload), budget.budget_for(len(payload)) * 8)
    if k != "ok":
        what = "did not terminate within the call budget" if k == "budget" else f"raised {type(res).__name__}"
        esc.append(f"decode_message_payload {what}")
        if own and (state is None or state == own):
            viol.append(f"genuine {own} message {key}: decode_message_payload {what} (state {state})")
        elif acc:
            # an exception / hang is not "the result of a decoder that accepts it"
            viol.append(f"decode_message_payload {what} although {[names[i] for i in acc]} accept the payload")
        return viol, esc, state, False
    after = a.previous_success_decoder
    _last_result["res"] = dict(res) if isinstance(res, dict) else res
    _last_result["digest"] = digest(a)
    if isinstance(res, dict):
        # the returned dictionary belongs to the caller: scribble on it, then the same payload (this time handed over as a
        # bytearray that is overwritten afterwards) must decode to the same values again
        keep = dict(res)
        res.clear()
        res["meter_manufacturer"] = "scribbled by the caller"
        buf = bytearray(payload)
        again = a.decode_message_payload(buf)
        for i in range(len(buf)):
            buf[i] = 0
        if not same_result(again, keep):
            viol.append(f"decoding the same payload a second time (after the caller changed the first result) gives {again!r:.80}, first result was {keep!r:.80}")
        res = keep
    if res is None:
        if acc:
            viol.append(f"result None although {[names[i] for i in acc]} accept the payload")
        if after != state:
            viol.append(f"previous_success_decoder changed {state} -> {after} on a payload nobody accepts")
    else:
        if not acc:
            viol.append(f"result {res!r:.80} although no individual decoder accepts")
        else:
            if after not in names or ind[names.index(after)][0] != "ok" or not same_result(ind[names.index(after)][1], res):
                viol.append(f"result is not the result of the decoder named afterwards ({after}); accepting: {[names[i] for i in acc]}")
            if state is not None and names.index(state) in acc and after != state:
                viol.append(f"previously successful decoder {state} accepts the payload but {after} was used")
            if own and (state is None or state == own) and after != own:
                viol.append(f"genuine {own} message decoded by {after} (state before: {state})")
    # decode_message on wrappers == decode_message_payload on the payload, including the state afterwards
    for wname, msg in wrap_messages(payload):
        b = replay_history(hist)
        k2, r2, _ = budget.run_budget(lambda: b.decode_message(msg), budget.budget_for(len(payload)) * 8)
        if k2 != "ok":
            esc.append(f"decode_message({wname}) escaped: {k2}")
            continue
        exp = res if payload else None
        if wname == "DataReadout":
            # a readout is decoded by the P1 decoder or not at all; whoever is named afterwards must be that decoder
            p1ok = ind[names.index("P1")][0] == "ok"
            if p1ok:
                exp = dict(ind[names.index("P1")][1], meter_manufacturer_id="ABC", meter_type_id="xyz")
                if not same_result(r2, exp) or b.previous_success_decoder != "P1":
                    viol.append(f"decode_message(DataReadout) = {r2!r:.80} / state {b.previous_success_decoder}, expected the P1 decoder's result plus the identification fields and state P1")
            continue
        if not same_result(r2, exp) or (payload and b.previous_success_decoder != after):
            viol.append(f"decode_message({wname}) = {r2!r:.60} / state {b.previous_success_decoder}, decode_message_payload = {res!r:.60} / state {after}")
    return viol, esc, after, res is not None


def replay(case: dict) -> list[str]:
    if case.get("state") == "short":
        pp = _work_short((bytes.fromhex(case["payload"] or "00")[0],))
        return [v["what"] for v in pp.v if case["payload"] in v["what"] or not case["payload"]]
    if case.get("state") == "collision":
        pp = _work_collisions(0)
        return [v["what"] for v in pp.v]
    v, esc, _, _ = judge(tuple(case["history"]) if "history" in case and case.get("state") == "history" else case.get("state"), case["event"], True)
    return v


def colliding_frames():
    """Pairs of different valid HDLC frames of equal length AND equal FCS (found by searching the 16 low bits of the APDU
    invoke id): anything that identifies a frame by (length, check sequence) confuses them.  [(A, B), ...] as HdlcFrame."""
    from mc.ref import cosem as RC

    pairs = []
    bodies = [
        (RC.kaifa_body_positional(RC.KAIFA_LAYOUTS[1], {"active_power_import": 1476}), RC.kaifa_body_positional(RC.KAIFA_LAYOUTS[1], {"active_power_import": 1540}),
         b"\x09\x0c" + RC.dt12(2024, 3, 10, 18, 31, 58), b"\x09\x0c" + RC.dt12(2024, 3, 10, 18, 32, 0)),
        (RC.aidon_body([("1.0.1.7.0.255", ("num", "u32", 280, 0, 27))]), RC.aidon_body([("1.0.1.7.0.255", ("num", "u32", 7000, 0, 27))]), b"\x00", b"\x00"),
    ]
    for b1, b2, d1, d2 in bodies:
        pa = RC.llc(b1, d1)
        fa = RH.build_frame(0xA, 0, b"\x01", b"\x21", 0x13, pa)
        target = fa[-2:]
        for inv in range(65536):
            pb = RC.llc(b2, d2, b"\x40\x00" + bytes((inv >> 8, inv & 0xFF)))
            fb = RH.build_frame(0xA, 0, b"\x01", b"\x21", 0x13, pb)
            if fb[-2:] == target and len(fb) == len(fa):
                frames = []
                for f in (fa, fb):
                    got, _ = X.feed((True, True), [b"\x7e" + RH.stuff(f) + b"\x7e"])
                    assert len(got) == 1 and got[0].is_valid
                    frames.append(got[0])
                pairs.append(tuple(frames))
                break
    return pairs


def _work_collisions(task) -> core.Part:
    from han import autodecoder

    p = core.Part()
    for fa, fb in colliding_frames():
        for order in ((fa, fb), (fb, fa), (fa, fb, fa), (fa, fa, fb)):
            a = autodecoder.AutoDecoder()
            for i, fr in enumerate(order):
                k, got, _ = budget.run_budget(lambda: a.decode_message(fr), budget.budget_for(len(fr.payload)) * 8)
                want = autodecoder.AutoDecoder().decode_message_payload(fr.payload)
                p.add("transitions")
                if k != "ok" or not same_result(got, want):
                    p.viol("collision", f"collision:{fr.as_bytes.hex()[:40]}:{i}:{len(order)}", f"frames of equal length and equal FCS {fa.as_bytes[-2:].hex()} decoded in a row: step {i} decode_message "
                           f"gives {got!r:.90}, decode_message_payload of the same payload gives {want!r:.90}", {"state": "collision", "event": "", "history": [f.as_bytes.hex() for f in order]}, size=i + 1)
                    break
    p.add("collision_pairs", len(colliding_frames()))
    return p


def _work_seq(task) -> core.Part:
    """Exhaustive histories of length <= 3 over a sub-pool, each replayed on ONE live AutoDecoder; every step must
    agree with the transition table of the fixpoint exploration (detects any dependence on state that the snapshot of
    the AutoDecoder does not show, e.g. module-level caches)."""
    import itertools

    from han import autodecoder

    first, sub, table = task
    gen, ev, makers = pool()
    p = core.Part()
    for rest in itertools.product(sub, repeat=2):
        seq = (first,) + rest
        a = autodecoder.AutoDecoder()
        twin = autodecoder.AutoDecoder()  # a second instance used in alternation: instances must not share state
        state = digest(a)
        for i, key in enumerate(seq):
            payload = ev[key][0]
            try:
                twin.decode_message_payload(ev[sub[(len(key) + i) % len(sub)]][0])
            except Exception:  # noqa: BLE001
                pass
            k, res, _ = budget.run_budget(lambda: a.decode_message_payload(payload), budget.budget_for(len(payload)) * 8)
            p.add("transitions")
            want = table.get((state, key))
            if want is None:
                break
            after_w, res_w = want
            if k != "ok":
                p.add("escapes_reported_under_C15")
                break
            if digest(a) != after_w or res != res_w:
                p.viol("history", f"history:{seq[:i + 1]}", f"history {list(seq[:i + 1])}: step {i} gives {res!r:.80} / remembered {a.previous_success_decoder}, "
                       f"but the same payload from the same snapshot state in the exploration gave {res_w!r:.80}", {"state": "history", "event": key, "history": list(seq[:i])}, size=i + 1)
                break
            state = after_w
        p.add("sequences")
    return p


def _work(task) -> core.Part:
    node, hist, keys = task
    p = core.Part()
    state = replay_history(hist).previous_success_decoder if hist else None
    for key in keys:
        _last_result.clear()
        v, esc, after, decoded = judge(hist, key, True)
        p.add("transitions")
        if decoded:
            p.add("decoded")
        p.out(f"{state}->{after}")
        escaped = bool(esc) and "digest" not in _last_result
        p.s.append((node, key, _last_result.get("digest"), "__escape__" if escaped else _last_result.get("res"), after))
        if esc:
            p.add("escapes_reported_under_C15", len(esc))
        for m in v:
            p.viol("autodecoder", f"autodecoder:{state}:{list(hist)[-3:]}:{key}:{m[:60]}", f"after history {list(hist)} (remembered decoder {state}), payload {key}: {m}",
                   {"state": "history", "history": list(hist), "event": key}, size=len(hist) + 1)
    return p


def _work_short(task) -> core.Part:
    """Every payload of 0, 1 and 2 octets (and the 3-octet payloads that start like a list header) on a fresh AutoDecoder:
    None exactly when no individual decoder accepts it, otherwise the result of the decoder named afterwards."""
    hi, = task
    from han import autodecoder

    p = core.Part()
    names = list(autox.DECODER_NAMES)
    payloads = [bytes([hi])] + [bytes([hi, lo]) for lo in range(256)]
    if hi == 0:
        payloads.append(b"")
    if hi in (1, 2):
        payloads += [bytes([hi, n, x]) for n in (0, 1, 2, 3) for x in range(256)]
    for pl in payloads:
        ind = individual(pl)
        acc = [i for i, x in enumerate(ind) if x[0] == "ok"]
        a = autodecoder.AutoDecoder()
        k, res, _ = budget.run_budget(lambda: a.decode_message_payload(pl), budget.budget_for(len(pl)) * 8)
        p.add("transitions")
        p.add("short_payloads")
        m = None
        if k != "ok":
            m = f"decode_message_payload did not return normally ({k})" if acc else None
        elif res is None and acc:
            m = f"result None although {[names[i] for i in acc]} accept the payload"
        elif res is not None and not acc:
            m = f"result {res!r:.60} although no individual decoder accepts"
        elif res is not None:
            after = a.previous_success_decoder
            if after not in names or ind[names.index(after)][0] != "ok" or not same_result(ind[names.index(after)][1], res):
                m = f"result is not the result of the decoder named afterwards ({after})"
        if res is not None:
            p.add("decoded")
        p.out("accepted" if acc else "rejected")
        if m:
            p.viol("autodecoder", f"autodecoder:short:{pl.hex()}:{m[:40]}", f"fresh AutoDecoder, payload {pl.hex() or '(empty)'}: {m}", {"state": "short", "payload": pl.hex()}, size=len(pl))
            if p.full("autodecoder"):
                break
    return p


def _work_generated(task) -> core.Part:
    """Every generated well-formed list on a fresh AutoDecoder, on one that remembers the list's own decoder, and on one
    that remembers each of the other decoders."""
    keys, = task
    p = core.Part()
    gen, ev, makers = pool()
    firsts = {}
    for k, (m, own) in sorted(gen.items()):
        if k.startswith("fix.") or own == "P1":
            firsts.setdefault(own, k)
    hists = [()] + [(firsts[n],) for n in autox.DECODER_NAMES if n in firsts]
    for key in keys:
        for hist in hists:
            v, esc, after, decoded = judge(hist, key, True)
            p.add("transitions")
            p.add("generated_transitions")
            if decoded:
                p.add("decoded")
            p.out(f"{'fresh' if not hist else 'primed'}->{after}")
            for m in v:
                p.viol("autodecoder", f"autodecoder:gen:{list(hist)}:{key}:{m[:60]}", f"after history {list(hist)}, generated list {key}: {m}",
                       {"state": "history", "history": list(hist), "event": key}, size=len(hist) + 1)
        if p.full("autodecoder"):
            p.capped = True
            break
    return p


def main(run: core.Run) -> int:
    run.rule = ("events = every pool payload (28 captured messages + reference-built lists of every supported shape in frame and bare-body form + 5 P1 blocks + junk); states = reachable AutoDecoder snapshots; "
                "BFS to a fixpoint executes every (state, event) transition on the real object, both entry points; non-trivial = distinct transitions whose result is a dictionary")
    global THOROUGH_POOL
    THOROUGH_POOL = not run.quick
    gen, ev, makers = pool()
    keys = sorted(ev, key=lambda k: (len(ev[k][0]), k))
    from han import autodecoder
    root = digest(autodecoder.AutoDecoder())
    seen = {root: ()}
    frontier = [root]
    parts = []
    edges = 0
    table = {}
    names_seen = {None}
    cap_levels, cap_nodes = (24, 300) if run.quick else (40, 600)
    level = 0
    closed = True
    while frontier:
        level += 1
        if level > cap_levels or len(seen) > cap_nodes:
            closed = False
            break
        tasks = [(nd, seen[nd], keys[i::8]) for nd in frontier for i in range(8)]
        res = par.pmap(_work, tasks, seed=run.seed)
        nxt = []
        for p in res:
            for rec in p.s:
                if isinstance(rec, tuple) and len(rec) == 5:
                    nd, key, dg_after, r, after_name = rec
                    edges += 1
                    names_seen.add(after_name)
                    if r != "__escape__" and dg_after is not None:
                        table[(nd, key)] = (dg_after, r)
                        if dg_after not in seen:
                            seen[dg_after] = seen[nd] + (key,)
                            nxt.append(dg_after)
            p.s = []
            parts.append(p)
        frontier = nxt
    if not closed:
        run.exhaustive = False
        run.notes.append(f"the AutoDecoder's snapshot state space did not close within {cap_levels} BFS levels / {cap_nodes} states (it closes after 2 levels with 8 states on the pinned tree): explored to that depth only")
    run.merge(parts)
    # histories of length <= 3, exhaustively, over a sub-pool: one genuine message per decoder in both sources, P1, junk
    sub = []
    for name in autox.DECODER_NAMES:
        ks = sorted(k for k, (m, own) in gen.items() if own == name)
        sub += [ks[0], ks[-1]]
    sub += ["junk.12345", "junk.empty", "junk.paren", "junk.ascii"] + sorted(k for k in ev if k.startswith("junk.tag0"))[:2]
    sub = list(dict.fromkeys(sub))
    run.log(f"fixpoint: {len(seen)} states, {edges} transitions; histories <= 3 over {len(sub)} events")
    run.merge(par.pmap(_work_seq, [(f, sub, table) for f in sub], seed=run.seed))
    run.merge(par.pmap(_work_collisions, [0], seed=run.seed))
    run.merge(par.pmap(_work_short, [(hi,) for hi in range(256)], seed=run.seed))
    gx = sorted(generated_pool())
    run.log(f"generated well-formed lists: {len(gx)} messages x 8 histories")
    run.merge(par.pmap(_work_generated, [(gx[i::64],) for i in range(64)], seed=run.seed))
    tot = run.total
    nontriv = tot.c.get("decoded", 0)
    tot.sample({"state": None, "event": "ref.kaifa.list1_1320W.body", "payload": "02010600000528", "expected": "decoded by Kaifa_notification_body"})
    tot.sample({"state": "Kamstrup_frame", "event": "fix.kaifa.se_list.frame", "expected": "Kaifa_frame result, previous_success_decoder = Kaifa_frame"})
    run.bounds = {"pool": len(keys), "genuine": len(gen), "remembered_decoders_reached": sorted(str(s) for s in names_seen), "fixpoint": closed, "bfs_levels": level}
    run.assumptions = ["the AutoDecoder's future depends only on its snapshotted attributes, so the BFS over remembered-decoder states closes and covers histories of any length over the pool",
                       "accept/reject of the individual decoders is observed by calling the seven public functions directly"]
    run.bounds["short_payloads"] = "all payloads of 0..2 octets, and 3-octet payloads 01/02 + element count 0..3 + any octet, on a fresh AutoDecoder"
    run.bounds["generated_lists"] = f"{len(gx)} lists from the C07-C09 shape generators x (fresh + 7 remembered decoders)"
    run.bounds["histories"] = f"all {len(sub)}^3 sequences of length 3 (and their prefixes) over a {len(sub)}-event sub-pool, replayed on one live object"
    nseq = tot.c.get("sequences", 0)
    return run.finish(states=len(seen), transitions=tot.c.get("transitions", edges), traces=edges + nseq, evaluations=edges + nseq, distinct_nontrivial=nontriv)
