"""C17 - ConnectionManager: one connection at a time, and close() really stops it.
E6: every environment script up to the bound (attempt outcomes x connection lifetimes) on the virtual-time loop, each
re-run with close() injected before every single event-loop callback and before every clock jump; E4: thousands of
reconnect cycles for the pending-task bound."""
from __future__ import annotations

import itertools

from mc import core, par, vloop

OUTS = (("S", 0), ("F", 0), ("S", 2), ("F", 2))
LIVES = (None, 0, 1, 10)
TASK_BOUND = 8


def scripts(maxlen: int, minlen: int = 1):
    for n in range(minlen, maxlen + 1):
        for seq in itertools.product(OUTS, repeat=n):
            succ = [i for i, (k, _) in enumerate(seq) if k == "S"]
            for ls in itertools.product(LIVES, repeat=len(succ)):
                li = iter(ls)
                yield tuple((k, d, next(li) if k == "S" else None) for k, d in seq)


def _evlist(log):
    return [(e[0], e[1], round(e[2], 6)) for e in log]


def run_case(script, close_step):
    seen_states = set()

    def watch(sc_, step, nt):
        seen_states.add(sc_.state_digest())

    sc = vloop.Scenario(script, close_step=close_step, watch=watch, horizon=400.0 + 70.0 * len(script)).run()
    errs = list(dict.fromkeys(sc.problems))
    log = sc.log
    if sc.max_tasks > TASK_BOUND:
        errs.append(f"{sc.max_tasks} pending tasks (bound {TASK_BOUND})")
    if close_step is None:
        # without close(): keeps reconnecting after every failure and every loss
        fails = sum(1 for e in log if e[0] == "fail")
        losses = sum(1 for e in log if e[0] == "lost")
        attempts = sum(1 for e in log if e[0] == "attempt")
        ended = fails + losses
        stays_up = any(e[0] == "connected" and script[e[1]][2] is None for e in log)
        if not stays_up and attempts != ended + 1:
            errs.append(f"{attempts} attempts after {fails} failures and {losses} losses: a reconnect is missing (or duplicated)")
        if any(e[0] == "loop_done" for e in log):
            errs.append("connect_loop() returned although close() was never called")
    else:
        idx = [i for i, e in enumerate(log) if e[0] == "close"]
        if idx:
            tclose = log[idx[0]][2]
            done = [e for e in log if e[0] == "loop_done"]
            if not done:
                errs.append(f"connect_loop() did not return after close() at t={tclose} (loop state: {sc.result})")
            elif done[0][2] != tclose:
                errs.append(f"connect_loop() returned at t={done[0][2]}, {done[0][2] - tclose:g} s after close() at t={tclose}")
            elif done[0][3] - log[idx[0]][3] > 50:
                errs.append(f"connect_loop() needed {done[0][3] - log[idx[0]][3]} event-loop steps after close()")
            conn = {e[1] for e in log if e[0] == "connected"}
            closed = {e[1] for e in log if e[0] == "transport_close"}
            if conn - closed:
                errs.append(f"transport(s) {sorted(conn - closed)} obtained by the manager were never closed")
            if sc.pending:
                errs.append(f"{sc.pending} task(s) still pending when the loop went idle after close()")
            if sc.result not in ("idle",):
                errs.append(f"event loop not idle after close(): {sc.result}")
    seen_states.add(sc.state_digest())
    res = (errs, _evlist(log), sc.loop.step, seen_states, sc.max_tasks)
    sc.cleanup()
    return res


def explore_script(script, tail_only: int = 0):
    """Reference run without close(), then close() injected before every step 0..K (and before clock jumps);
    tail_only > 0 restricts the injection to the last tail_only steps (long scripts)."""
    out = []
    errs, ref_log, K, dg, mt = run_case(script, None)
    out.append((None, errs, dg))
    errs2, ref_log2, K2, _, _ = run_case(script, None)
    if ref_log2 != ref_log or K2 != K:
        out.append((None, ["nondeterministic replay of the same schedule"], dg))
    for k in range(max(0, K - tail_only) if tail_only else 0, K + 1):
        errs, log, _, dg, _ = run_case(script, k)
        # divergence check: everything logged before step k must equal the reference run
        ci = next((i for i, e in enumerate(log) if e[0] == "close"), None)
        if ci is None:
            continue  # the run ended before step k
        if log[:ci] != ref_log[:ci]:
            errs = errs + [f"replay diverged before close step {k}"]
        out.append((k, errs, dg))
    return out, K


def replay(case: dict) -> list[str]:
    script = tuple(tuple(x) for x in case["script"])
    if case.get("cycles"):
        return cycle_errors(case["pattern"], case["cycles"])
    errs, log, _, _, _ = run_case(script, case["close_step"])
    return errs


def _work(task) -> core.Part:
    batch, = task
    p = core.Part()
    for script in batch:
        res, K = explore_script(script, tail_only=40 if len(script) > 30 else 0)
        p.add("scripts")
        p.add("steps", K)
        for k, errs, dg in res:
            p.add("executions")
            p.d |= dg
            p.out("violates" if errs else "ok")
            if k is not None:
                p.add("nontrivial")
            for m in errs:
                kind = "close" if k is not None else "reconnect"
                p.viol(kind, f"{kind}:{script}:{k}:{m[:40]}", f"script {list(script)} close() before step {k}: {m}", {"script": [list(x) for x in script], "close_step": k},
                       size=len(script) * 100 + (k or 0))
        if p.full("close") and p.full("reconnect"):
            p.capped = True
            break
    return p


def cycle_errors(pattern: str, cycles: int) -> list[str]:
    if pattern == "F":
        script = [("F", 0, None)] * cycles
    elif pattern == "SL":
        script = [("S", 0, 1)] * cycles
    else:
        script = [("F", 0, None), ("S", 0, 7)] * (cycles // 2)
    samples = {}

    def watch(sc, step, nt):
        n = sc.n_attempts
        if n in (cycles // 2, cycles - 1) and n not in samples:
            samples[n] = nt

    sc = vloop.Scenario(script, horizon=10**9, max_steps=10**8, watch=watch).run()
    errs = list(dict.fromkeys(sc.problems))
    if sc.n_attempts < cycles:
        errs.append(f"only {sc.n_attempts} of {cycles} cycles ran ({sc.result})")
    if sc.max_tasks > TASK_BOUND:
        errs.append(f"pending tasks reached {sc.max_tasks} during {cycles} reconnect cycles (bound {TASK_BOUND})")
    a, b = samples.get(cycles // 2), samples.get(cycles - 1)
    if a is not None and b is not None and a != b:
        errs.append(f"pending tasks grow with the number of cycles: {a} at cycle {cycles // 2}, {b} at cycle {cycles - 1}")
    sc.cleanup()
    return errs


def _work_cycles(task) -> core.Part:
    pattern, cycles = task
    p = core.Part()
    errs = cycle_errors(pattern, cycles)
    p.add("executions")
    p.add("cycles", cycles)
    for m in errs:
        p.viol("task_bound", f"task_bound:{pattern}:{m[:40]}", f"{cycles} cycles of pattern {pattern}: {m}", {"script": [], "pattern": pattern, "cycles": cycles, "close_step": None}, size=10**6)
    return p


def main(run: core.Run) -> int:
    q = run.quick
    run.rule = ("scripts = all sequences of attempt outcomes {succeed, fail, succeed after 2 s, fail after 2 s} up to the bound x connection lifetime {stays up, lost after 0/1/10 s} per success; each script run without close() "
                "and once per event-loop step k with close() executed before step k (between every two callbacks and before every clock jump); invariants: <=1 live transport, no attempt while one is live/in flight/after close(), "
                "reconnect after every failure/loss, connect_loop() returns at the same virtual instant as close(), all transports closed, no pending tasks; non-trivial = executions with a close() injected")
    L = 3 if q else 4
    allscripts = list(scripts(L))
    # attempts that complete after a bare yield to the event loop (neither instantly nor after a timer): more interleavings
    YO = (("S", 1e-6), ("F", 1e-6), ("S", 0), ("F", 0))
    for n in ((1, 2) if q else (1, 2, 3)):
        for seq in itertools.product(YO, repeat=n):
            if all(d == 0 for _, d in seq):
                continue
            succ = [i for i, (k, _) in enumerate(seq) if k == "S"]
            for ls in itertools.product((None, 0, 1), repeat=len(succ)):
                li = iter(ls)
                allscripts.append(tuple((k, d, next(li) if k == "S" else None) for k, d in seq))
    if not q:
        # length 5 without slow outcomes, to keep the count finite and useful
        for seq in itertools.product((("S", 0), ("F", 0)), repeat=5):
            succ = [i for i, (k, _) in enumerate(seq) if k == "S"]
            for ls in itertools.product((None, 0, 1), repeat=len(succ)):
                li = iter(ls)
                allscripts.append(tuple((k, d, next(li) if k == "S" else None) for k, d in seq))
    nlong = 24 if q else 60
    for pat in ((("F", 0, None),), (("S", 0, 1),), (("F", 0, None), ("S", 0, 7)), (("S", 0, 0), ("S", 0, 1), ("F", 0, None))):
        allscripts.append(tuple((pat * nlong)[:nlong]))  # a counter/threshold on the number of reconnects shows only in long scripts
    # long outages followed by a recovery: F^k then a success that stays up / is lost (close() at the last 40 steps only)
    for k in ((31, 47, 48, 64, 65, 80) if q else tuple(range(31, 100, 3)) + (47, 48, 64, 65, 128)):
        allscripts.append(tuple([("F", 0, None)] * k + [("S", 0, None)]))
        allscripts.append(tuple([("F", 0, None)] * k + [("S", 0, 1), ("S", 0, None)]))
    batches = [(allscripts[i::64],) for i in range(64)]
    run.log(f"{len(allscripts)} scripts")
    run.merge(par.pmap(_work, batches, seed=run.seed))
    cyc = 2000 if q else 5000
    run.merge(par.pmap(_work_cycles, [("F", cyc), ("SL", cyc), ("FS", cyc)], seed=run.seed))
    tot = run.total
    tot.sample({"script": [["F", 0, None], ["S", 2, None]], "close_before_step": 7, "meaning": "close() lands while the second attempt is pending"})
    tot.sample({"script": [["S", 0, 1], ["S", 0, None]], "close_before_step": "every k in 0..K"})
    run.bounds = {"script_length": L if q else "4 (all outcomes) and 5 (fast outcomes)", "scripts": len(allscripts), "close_positions": "every step of every script", "outage_then_recovery": "31..128 consecutive failures followed by a success (close() injected at the last 40 steps)", "long_scripts": f"4 periodic scripts of {nlong} attempts, close() at every step", "cycles_for_task_bound": cyc,
                  "external_events": "one close() per run"}
    run.assumptions = ["the explorer owns the clock (virtual), the callback order (FIFO of the stock loop) and the factory; CPython GC timing is not owned and no oracle reads it",
                       "asyncio internals _ready/_scheduled as in CPython 3.12 (asserted at start-up)", "han.meter_connection.datetime is substituted by a shim reading the virtual clock"]
    ex = tot.c.get("executions", 0)
    return run.finish(states=len(tot.d), transitions=tot.c.get("steps", 0) + tot.c.get("nontrivial", 0), traces=ex, evaluations=ex, distinct_nontrivial=tot.c.get("nontrivial", 0))
