"""C09 - Kamstrup lists decode to the transmitted values with the documented scaling.  E5: documented layouts x
null-data padding patterns x meter type numbers (incl. current-transformer types) x value alphabets, frame and body."""
from __future__ import annotations

from mc import core, cosemx, par
from mc.ref import cosem as RC

CLK = (2021, 11, 24, 0, 0, 25, 0xFF, None, 0, 3)
APDU = (2022, 1, 24, 18, 58, 50, 0xFF, None, 0, 1)
MTYPES = ("6841138BN245101090", "6851111BN242101040", "6851", "6861111BN242101040", "685", "1685111BN242101040", "", "68 5", "585")


def base_values(names, mtype=MTYPES[0], offset=0):
    v = {}
    for i, n in enumerate(names):
        if n == "meter_id":
            v[n] = "5706567000000000"
        elif n == "meter_type":
            v[n] = mtype
        elif n == "meter_datetime":
            v[n] = CLK
        elif n.startswith("voltage"):
            v[n] = 220 + i + offset
        else:
            v[n] = 1000 * (i + 1) + 7 * i + offset
    return v


def check(layout, values, pad=None, list_ver="Kamstrup_V0001", apdu=None) -> list[str]:
    from han import kamstrup

    APDU = apdu or globals()["APDU"]

    names = RC.KAM_LAYOUTS[layout]
    pad = {int(k): n for k, n in (pad or {}).items()}
    body = RC.kam_body(names, values, list_ver, pad)
    try:  # a call that fails (truncated body) comes first: it must leave nothing behind
        kamstrup.decode_notification_body(body[:-1])
    except Exception:  # noqa: BLE001
        pass
    try:
        d1 = kamstrup.decode_notification_body(body)
        d2 = kamstrup.decode_frame_content(RC.llc(body, b"\x0c" + RC.dt12(*APDU), b"\x00\x00\x00\x00"))
    except Exception as ex:  # noqa: BLE001
        return [f"decoder raised {type(ex).__name__}: {ex} for body {body.hex()[:100]}"]
    errs = [f"body: {e}" for e in RC.dict_errors(d1, RC.kam_expected(names, values, list_ver))]
    errs += [f"frame: {e}" for e in RC.dict_errors(d2, RC.kam_expected(names, values, list_ver, apdu=APDU))]
    if not errs:
        d1.clear()
        d2["meter_id"] = "x"
        errs += [f"second decode of the same body: {e}" for e in RC.dict_errors(kamstrup.decode_notification_body(bytearray(body)), RC.kam_expected(names, values, list_ver))]
    return errs


def replay(case: dict) -> list[str]:
    v = {k: (tuple(x) if isinstance(x, list) else x) for k, x in case["values"].items()}
    errs = check(case["layout"], v, case.get("pad"), case.get("list_ver", "Kamstrup_V0001"))
    if not errs and "meter_datetime" in v:  # clock-relation cases: try the APDU variants of the clocks phase
        from mc.props import C10
        for seq in C10.equal_instant_sequences():
            for a in seq:
                errs = errs or check(case["layout"], v, None, "Kamstrup_V0001", a)
    return errs


def _report(p, layout, values, pad, errs, label, ct):
    kind = "kamstrup_ct" if ct else "kamstrup"
    p.viol(kind, f"{kind}:{layout}:{pad}:{sorted(values.items())!r:.200}", f"layout {layout} pad={pad} {label}: {errs[0]}",
           {"layout": layout, "pad": {str(k): n for k, n in (pad or {}).items()}, "values": {k: (list(x) if isinstance(x, tuple) else x) for k, x in values.items()}}, size=len(values))


def _work(task) -> core.Part:
    layout, seed, mode = task
    p = core.Part()
    names = RC.KAM_LAYOUTS[layout]
    n = len(names)
    if mode == "pad":
        for mt in MTYPES:
            pads = [None] + [{i: k} for i in range(0, n + 1) for k in (1, 4)] + [{i: k for i in range(0, n + 1)} for k in (1, 4)]
            for pad in pads:
                v = base_values(names, mt)
                e = check(layout, v, pad)
                p.add("evaluations")
                p.add("nontrivial")
                p.out("ct_meter" if mt.startswith("685") else "standard_meter")
                if e:
                    _report(p, layout, v, pad, e, f"meter type {mt!r}", mt.startswith("685"))
    elif mode == "padsweep":
        for k in list(range(0, 131)) + [200, 255]:
            for pos in (0, 2, n // 2, n):
                v = base_values(names)
                e = check(layout, v, {pos: k})
                p.add("evaluations")
                p.add("nontrivial")
                if e:
                    _report(p, layout, v, {pos: k}, e, f"{k} null-data octets after position {pos}", False)
                    if p.full("kamstrup"):
                        return p
    elif mode == "pairs":
        import itertools
        nums = [x for x in names if x not in ("meter_id", "meter_type", "meter_datetime")]
        small32 = (0, 1, 99, 100, 65535, 65536, 2**32 - 1)
        for mt in (MTYPES[0], MTYPES[1]):
            for a, b in itertools.combinations(nums, 2):
                for va in small32:
                    for vb in small32:
                        v = base_values(names, mt)
                        v[a] = va & 0xFFFF if a.startswith("voltage") else va
                        v[b] = vb & 0xFFFF if b.startswith("voltage") else vb
                        e = check(layout, v)
                        p.add("evaluations")
                        p.add("nontrivial")
                        if e:
                            _report(p, layout, v, None, e, f"{a}={v[a]}, {b}={v[b]} meter type {mt!r}", mt.startswith("685"))
                            if p.full("kamstrup") or p.full("kamstrup_ct"):
                                return p
    elif mode == "lattice":
        for mt in (MTYPES[0], MTYPES[1]):
            for field in ("current_l1", "active_power_import_total" if "active_power_import_total" in names else "active_power_import"):
                for hi16 in range(0, 256):
                    for k in range(16):
                        val = (hi16 * 257 % 65536) * 65536 + (k * 4099 + hi16 * 7) % 65536
                        v = base_values(names, mt)
                        v[field] = val
                        e = check(layout, v)
                        p.add("evaluations")
                        p.add("nontrivial")
                        if e:
                            _report(p, layout, v, None, e, f"{field}={val} meter type {mt!r}", mt.startswith("685"))
                            if p.full("kamstrup") or p.full("kamstrup_ct"):
                                return p
    elif mode == "clocks":
        # relations between the APDU date-time and the list's own clock element: equal civil fields with different
        # deviations, equal instants, naive vs aware - the frame's meter clock is always the APDU date-time
        from mc.props import C10
        if "meter_datetime" in names:
            for seq in C10.equal_instant_sequences():
                for a, b in ((seq[0], seq[1]), (seq[1], seq[0]), (seq[0], seq[0])):
                    v = base_values(names)
                    v["meter_datetime"] = b
                    e = check(layout, v, None, "Kamstrup_V0001", a)
                    p.add("evaluations")
                    p.add("nontrivial")
                    if e:
                        _report(p, layout, v, None, e, f"APDU date-time {RC.dt12(*a).hex()} vs list clock {RC.dt12(*b).hex()}", False)
                        if p.full("kamstrup"):
                            return p
    elif mode == "values":
        a32 = cosemx.int_alphabet("u32", seed)
        a16 = cosemx.int_alphabet("u16", seed)
        for mt in (MTYPES[0], MTYPES[1]):
            for nm in names:
                if nm in ("meter_id", "meter_type", "meter_datetime"):
                    continue
                for val in (a16 if nm.startswith("voltage") else a32):
                    v = base_values(names, mt)
                    v[nm] = val
                    e = check(layout, v)
                    p.add("evaluations")
                    p.add("nontrivial")
                    if e:
                        _report(p, layout, v, None, e, f"{nm}={val} meter type {mt!r}", mt.startswith("685"))
                        if p.full("kamstrup") and p.full("kamstrup_ct"):
                            return p
    elif mode == "words":
        for i, t in enumerate(w3 for w in cosemx.word_texts() + cosemx.edge_texts() for w3 in (w, w, w)):
            v = base_values(names)
            lv = "Kamstrup_V0001"
            if i % 3 == 0:
                v["meter_id"] = t
            elif i % 3 == 1:
                v["meter_type"] = t
            else:
                lv = t
            e = check(layout, v, None, lv)
            p.add("evaluations")
            p.add("nontrivial")
            if e:
                _report(p, layout, v, None, e, f"text {t!r}", str(v["meter_type"]).startswith("685"))
                if p.full("kamstrup") or p.full("kamstrup_ct"):
                    return p
    elif mode == "text":
        for t in ("", "A", "Kamstrup_V0001", "x" * 200):
            v = base_values(names)
            e = check(layout, v, None, t)
            p.add("evaluations")
            p.add("nontrivial")
            if e:
                _report(p, layout, v, None, e, f"list version {t!r:.20}", False)
            v = base_values(names)
            v["meter_id"] = t
            e = check(layout, v)
            p.add("evaluations")
            if e:
                _report(p, layout, v, None, e, f"meter id {t!r:.20}", False)
    else:
        field, lo, hi, mt = mode
        for x in range(lo, hi):
            v = base_values(names, mt)
            v[field] = x
            e = check(layout, v)
            p.add("evaluations")
            p.add("nontrivial")
            if e:
                _report(p, layout, v, None, e, f"{field}={x} meter type {mt!r}", mt.startswith("685"))
                if p.full("kamstrup") or p.full("kamstrup_ct"):
                    p.capped = True
                    return p
    return p


def main(run: core.Run) -> int:
    q = run.quick
    run.rule = ("layouts: 10-second and hourly lists for 1/3-phase meters and the 1-quadrant hourly list; null-data padding of 1 and 4 octets after each element position (one at a time, and everywhere); "
                "9 meter type numbers (CT types 685...); per register the u32/u16 alphabets for a standard and a CT meter; complete 2^16 sweep of one current register (standard and CT); list version / id texts; "
                "each as bare body and as frame; non-trivial = distinct lists decoded")
    cosemx.bind_fixtures()
    tasks = [(lay, run.seed, m) for lay in RC.KAM_LAYOUTS for m in ("pad", "values", "text", "padsweep", "pairs", "clocks")] + [("list2_1ph", run.seed, "lattice"), ("list1_3ph", run.seed, "lattice"), ("list2_3ph", run.seed, "words"), ("list1_1ph", run.seed, "words")]
    for mt in (MTYPES[0], MTYPES[1]):
        for a in range(0, 65536 if q else 2 * 65536, 4096):
            tasks.append(("list1_3ph", run.seed, ("current_l1", a, a + 4096, mt)))
    run.merge(par.pmap(_work, tasks, seed=run.seed))
    tot = run.total
    tot.sample({"layout": "list1_1ph", "meter_type": "6851111BN242101040", "register current_l1": 896, "expected": 0.896})
    tot.sample({"layout": "list2_3ph", "pad": {"3": 4}, "body_prefix": RC.kam_body(RC.KAM_L2_3, base_values(RC.KAM_L2_3), pad={3: 4}).hex()[:120]})
    run.bounds = {"layouts": list(RC.KAM_LAYOUTS), "pairwise": "every pair of registers x 7x7 values x standard/CT meter", "lattice": "4096 values spread over the 32-bit range for a current and an energy/power register", "padding_sweep": "0..130, 200, 255 null-data octets after 4 positions of every layout", "meter_types": list(MTYPES)}
    run.assumptions = ["reference encoders and OBIS table in mc/ref/cosem.py (bound to the fixtures of tests/test_kamstrup.py)", "current = register/100 taken literally: the correctly rounded quotient"]
    ev = tot.c.get("evaluations", 0)
    return run.finish(states=tot.c.get("nontrivial", 0), transitions=ev, traces=ev, evaluations=ev, distinct_nontrivial=tot.c.get("nontrivial", 0))
