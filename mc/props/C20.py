"""C20 - OBIS codes parse into their value groups and format back losslessly.  E5: exhaustive presence patterns x
group values over a boundary alphabet (+ complete 0..255 sweeps per group), all malformed strings up to length N
over a 7-symbol alphabet, all pairs of a 2304-tuple set for equality/hash."""
from __future__ import annotations

import itertools

from mc import core, par
from mc.ref import obis as RO

V = (0, 1, 9, 10, 99, 100, 255)
MAL = ("1", ".", "-", ":", "*", "a", " ")


def check_groups(g, form: str) -> list[str]:
    from han import obis

    errs = []
    s = RO.reduced(g) if form == "reduced" else RO.six(g)
    try:
        got = obis.to_obis_tupple(s)
    except Exception as ex:  # noqa: BLE001
        return [f"to_obis_tupple({s!r}) raised {type(ex).__name__}"]
    if tuple(got) != tuple(g):
        errs.append(f"to_obis_tupple({s!r}) = {got!r}, groups sent {g!r}")
    o = obis.Obis.from_string(s)
    if tuple(o.as_tupple()) != tuple(g):
        errs.append(f"Obis.from_string({s!r}).as_tupple() = {o.as_tupple()!r} != {g!r}")
    o2 = obis.Obis(tuple(g))
    if not (o2 == o) or hash(o2) != hash(o):
        errs.append(f"Obis({g!r}) and Obis.from_string({s!r}) differ in == or hash")
    if not (o2 == s):
        errs.append(f"Obis({g!r}) == {s!r} is False (comparison with a string must parse it)")
    cde = o2.to_group_cdr_str()
    if cde != f"{g[2]}.{g[3]}.{g[4]}":
        errs.append(f"to_group_cdr_str() = {cde!r} for groups {g!r}")
    if (o2.a, o2.b, o2.c, o2.d, o2.e, o2.f) != tuple(g):
        errs.append(f"group accessors {(o2.a, o2.b, o2.c, o2.d, o2.e, o2.f)!r} != {g!r}")
    return errs


def check_derived(g) -> list[str]:
    """Objects derived from an Obis (filter_group_cde, a copy, one built from as_tupple) after the original was
    formatted / hashed / compared: each must behave exactly like a fresh object with its own groups."""
    import copy

    from han import obis

    errs = []
    o = obis.Obis(tuple(g))
    _ = (o.to_reduced_str(), str(o), repr(o), hash(o), o == o.to_reduced_str(), o.to_group_cdr_str())
    want = (None, None, g[2], g[3], g[4], None)
    for name, d, wg in (("filter_group_cde()", o.filter_group_cde(), want), ("copy.copy()", copy.copy(o), tuple(g)), ("Obis(as_tupple())", obis.Obis(o.as_tupple()), tuple(g))):
        fresh = obis.Obis(wg)
        if tuple(d.as_tupple()) != wg:
            errs.append(f"{name} of {g!r} has groups {d.as_tupple()!r}, expected {wg!r}")
            continue
        for meth in ("to_reduced_str", "__str__", "to_group_cdr_str", "__hash__"):
            a, b = getattr(d, meth)(), getattr(fresh, meth)()
            if a != b:
                errs.append(f"{name} of {g!r} (after the original was formatted): {meth}() = {a!r}, a fresh Obis({wg!r}) gives {b!r}")
        if not (d == fresh) or (d == o) != (wg == tuple(g)):
            errs.append(f"{name} of {g!r}: equality with a fresh object / the original is wrong")
    # the original itself must be unaffected by having produced derived objects
    if o.to_reduced_str() != obis.Obis(tuple(g)).to_reduced_str() or tuple(o.as_tupple()) != tuple(g):
        errs.append(f"Obis({g!r}) changed after deriving objects from it")
    return errs


def check_eq_sequences(g) -> list[str]:
    """Sequences of == with strings on several objects: valid, malformed, the same malformed string again, another code."""
    from han import obis

    errs = []
    s = RO.reduced(g)
    a, b = obis.Obis.from_string(s), obis.Obis.from_string(s)
    other = RO.reduced((None, None, (g[2] + 1) % 256, g[3], None, None))
    c = obis.Obis.from_string(other)
    steps = [(a, s, True), (a, "kWh", False), (b, "kWh", False), (b, "kWh", False), (c, s, other == s), (a, other, other == s), (b, "", False), (a, "", False),
             (a, s, True), (c, "1.", False), (c, "1.", False), (c, other, True), (b, s + " ", None)]
    for i, (o, text, want) in enumerate(steps):
        got = (o == text)
        if want is None:
            want = tuple(o.as_tupple()) == tuple(obis.to_obis_tupple(text))
        if bool(got) != want:
            errs.append(f"step {i} of a comparison sequence: Obis({o.as_tupple()!r}) == {text!r} is {got!r}, expected {want}")
            break
    return errs


def check_roundtrip(g) -> list[str]:
    from han import obis

    errs = []
    o = obis.Obis(tuple(g))
    for name, text in (("to_reduced_str", o.to_reduced_str()), ("str", str(o))):
        try:
            back = obis.to_obis_tupple(text)
        except Exception as ex:  # noqa: BLE001
            errs.append(f"{name}() of {g!r} gives {text!r}, which raises {type(ex).__name__} when parsed")
            continue
        if tuple(back) != tuple(g):
            errs.append(f"{name}() of {g!r} gives {text!r}, which parses to {back!r}")
    return errs


def check_malformed(s: str) -> list[str]:
    from han import obis

    try:
        got = obis.to_obis_tupple(s)
    except ValueError:
        return []
    except Exception as ex:  # noqa: BLE001
        return [f"to_obis_tupple({s!r}) raised {type(ex).__name__}, not ValueError"]
    return [f"to_obis_tupple({s!r}) returned {got!r} although the string contains no digit.digit"]


def check_pair(g1, g2) -> list[str]:
    from han import obis

    a, b = obis.Obis(tuple(g1)), obis.Obis(tuple(g2))
    eq = a == b
    errs = []
    if bool(eq) != (tuple(g1) == tuple(g2)):
        errs.append(f"Obis({g1!r}) == Obis({g2!r}) is {eq!r}")
    if tuple(g1) == tuple(g2) and hash(a) != hash(b):
        errs.append(f"equal objects {g1!r} hash differently")
    return errs


def replay(case: dict) -> list[str]:
    k = case["kind"]
    g = tuple(case.get("groups", ()))
    if k == "parse":
        return check_groups(g, case["form"])
    if k == "roundtrip":
        return check_roundtrip(g)
    if k == "derived":
        return check_derived(g)
    if k == "eqseq":
        return check_eq_sequences(g)
    if k == "malformed":
        return check_malformed(case["text"])
    return check_pair(tuple(case["g1"]), tuple(case["g2"]))


def _tuples(pattern, vals):
    """All group tuples with the given presence pattern (A, B, E, F present?) and values from vals."""
    pa, pb, pe, pf = pattern
    for a in (vals if pa else (None,)):
        for b in (vals if pb else (None,)):
            for c in vals:
                for d in vals:
                    for e in (vals if pe else (None,)):
                        for f in (vals if pf else (None,)):
                            yield (a, b, c, d, e, f)


def _work_parse(pattern) -> core.Part:
    p = core.Part()
    for g in _tuples(pattern, V):
        e = check_groups(g, "reduced")
        p.add("evaluations")
        p.add("nontrivial")
        if e:
            p.viol("parse", f"parse:reduced:{g}", e[0], {"kind": "parse", "form": "reduced", "groups": list(g)}, size=sum(x is not None for x in g))
        if pattern[0] and pattern[1] and pattern[2]:
            e = check_groups(g, "six")
            p.add("evaluations")
            p.add("nontrivial")
            if e:
                p.viol("parse", f"parse:six:{g}", e[0], {"kind": "parse", "form": "six", "groups": list(g)}, size=6)
        if all(x is None or x != 0 for x in (g[0], g[1], g[4], g[5])):
            e = check_roundtrip(g)
            p.add("evaluations")
            p.out("roundtrip_ok" if not e else "roundtrip_broken")
            if e:
                p.viol("roundtrip", f"roundtrip:{g}", e[0], {"kind": "roundtrip", "groups": list(g)}, size=sum(x is not None for x in g))
        e = check_eq_sequences(g)
        p.add("evaluations")
        if e:
            p.viol("equality", f"eqseq:{g}", e[0], {"kind": "eqseq", "groups": list(g)}, size=sum(x is not None for x in g))
        e = check_derived(g)
        p.add("evaluations")
        if e:
            p.viol("derived", f"derived:{g}", e[0], {"kind": "derived", "groups": list(g)}, size=sum(x is not None for x in g))
        if p.full("parse") and p.full("roundtrip"):
            p.capped = True
            break
    return p


def _work_sweep(idx) -> core.Part:
    """Each group swept over all 0..255 with the others fixed, in every presence pattern that has the group."""
    p = core.Part()
    for pattern in itertools.product((False, True), repeat=4):
        base = [7 if pattern[0] else None, 3 if pattern[1] else None, 1, 8, 2 if pattern[2] else None, 255 if pattern[3] else None]
        if base[idx] is None:
            continue
        for v in range(256):
            g = list(base)
            g[idx] = v
            g = tuple(g)
            forms = ["reduced"] + (["six"] if pattern[0] and pattern[1] and pattern[2] else [])
            for form in forms:
                e = check_groups(g, form)
                p.add("evaluations")
                p.add("nontrivial")
                if e:
                    p.viol("parse", f"parse:{form}:{g}", e[0], {"kind": "parse", "form": form, "groups": list(g)}, size=6)
            if all(x is None or x != 0 for x in (g[0], g[1], g[4], g[5])):
                e = check_roundtrip(g)
                p.add("evaluations")
                if e:
                    p.viol("roundtrip", f"roundtrip:{g}", e[0], {"kind": "roundtrip", "groups": list(g)}, size=6)
    return p


def _work_mal(task) -> core.Part:
    first, N = task
    p = core.Part()
    for L in range(1, N + 1):
        for tail in itertools.product(MAL, repeat=L - 1):
            s = first + "".join(tail)
            if RO.has_digit_dot_digit(s):
                continue
            e = check_malformed(s)
            p.add("evaluations")
            p.add("malformed")
            if e:
                p.viol("malformed", f"malformed:{s}", e[0], {"kind": "malformed", "text": s}, size=len(s))
                if p.full("malformed"):
                    p.capped = True
                    return p
    return p


def _work_pairs(task) -> core.Part:
    i, n = task
    p = core.Part()
    vals = (0, 1, 255)
    tuples = [g for pat in itertools.product((False, True), repeat=4) for g in _tuples(pat, vals)]
    for a in tuples[i::n]:
        for b in tuples:
            e = check_pair(a, b)
            p.add("evaluations")
            if e:
                p.viol("equality", f"equality:{a}:{b}", e[0], {"kind": "pair", "g1": list(a), "g2": list(b)}, size=12)
                if p.full("equality"):
                    return p
    p.add("pair_tuples", len(tuples[i::n]))
    return p


def main(run: core.Run) -> int:
    q = run.quick
    run.rule = ("all 16 presence patterns of A,B,E,F x groups over {0,1,9,10,99,100,255} in reduced form (and six-part form when A,B,E are present), complete 0..255 sweep of each group, "
                "format->parse round trip whenever optional groups are absent or non-zero, every string <=N over {1 . - : * a space} without digit.digit, all ordered pairs of 2304 tuples for ==/hash; "
                "non-trivial = distinct well-formed codes parsed")
    NM = 6 if q else 8
    run.merge(par.pmap(_work_parse, list(itertools.product((False, True), repeat=4)), seed=run.seed))
    run.merge(par.pmap(_work_sweep, range(6), seed=run.seed))
    run.merge(par.pmap(_work_mal, [(c, NM) for c in MAL], seed=run.seed))
    run.merge(par.pmap(_work_pairs, [(i, 32) for i in range(32)], seed=run.seed))
    tot = run.total
    tot.sample({"groups": [1, 0, 1, 8, 0, 255], "reduced": RO.reduced((1, 0, 1, 8, 0, 255)), "six": RO.six((1, 0, 1, 8, 0, 255))})
    tot.sample({"malformed": ["1.", ".1", "a", "1-:*", " ", "1.a"], "expected": "ValueError"})
    run.bounds = {"values": list(V), "malformed_len": NM, "pairs": "2304 x 2304"}
    run.assumptions = ["reference formatter mc/ref/obis.py transcribes [A-][B:]C.D[.E][*F] and A.B.C.D.E.F"]
    ev = tot.c.get("evaluations", 0)
    return run.finish(states=tot.c.get("nontrivial", 0), transitions=ev, traces=ev, evaluations=ev, distinct_nontrivial=tot.c.get("nontrivial", 0))
