"""C01 - HDLC: a frame is reported valid exactly when intact, exact fields, containment.
E1 (all octet strings / token sequences over tiny alphabets) + E3 (<=k edits of realistic streams x every cut),
all four reader configurations, oracle = reference model in mc/ref/hdlc.py."""
from __future__ import annotations

import itertools

from mc import core, devs, par
from mc import hdlcx as X
from mc.ref import hdlc as RH
from mc.snap import digest


def bind_fixtures(run) -> None:
    """Bind the reference builder to reality: every captured frame in tests/test_hdlc.py must be intact by
    the reference's definition and be re-built byte for byte from its own fields."""
    try:
        import tests.test_hdlc as th
    except Exception as ex:  # pragma: no cover
        run.notes.append(f"fixture binding skipped: {ex!r}")
        return
    n = 0
    for name in ("FRAME_EMPTY_INFO", "FRAME_SHORT_INFO", "FRAME_WITH_ESCAPE_CHARACTER_IN_INFO",
                 "FRAME_WITH_FLAG_SEQUENCE_CHARACTER_IN_INFO"):
        B = bytes.fromhex(getattr(th, name))
        fl = RH.frame_fields(B)
        assert RH.expected_valid(B), name
        again = RH.build_frame(B[0] >> 4, (B[0] >> 3) & 1, fl["dest"], fl["src"], fl["control"], fl["payload"] or b"")
        assert again == B, (name, again.hex())
        n += 1
    st = bytes.fromhex(th.STUFFED_FRAME_SHORT_INFO)
    B = RH.unstuff_lenient(st)
    assert RH.expected_valid(B) and RH.unstuff_lenient(RH.stuff(B)) == B  # (the capture also escapes 0x03)
    run.notes.append(f"reference frame builder reproduces {n + 1} captured frames of tests/test_hdlc.py byte for byte")


def check_exec(cfg, S: bytes, chunks) -> list[str]:
    errs, _ = X.exec_errors(tuple(cfg), S, chunks)
    return [e[1] for e in errs]


def replay(case: dict) -> list[str]:
    if "chunks_b" in case:
        from mc.props import C06

        return C06.replay(case)
    S = bytes.fromhex(case["stream"])
    chunks = [bytes.fromhex(c) for c in case["chunks"]] if "chunks" in case else X.split(S, case["cuts"])
    return check_exec(tuple(case["cfg"]), S, chunks)


def _report(p: core.Part, cfg, S: bytes, chunks, errs, label: str, how: str) -> None:
    for kind, msg in errs:
        case = {"cfg": list(cfg), "stream": S.hex(), "how": how, "label": label}
        if len(chunks) <= 64:
            case["chunks"] = [c.hex() for c in chunks]
        else:
            cuts, a = [], 0
            for c in chunks[:-1]:
                a += len(c)
                cuts.append(a)
            case["cuts"] = cuts
        p.viol(kind, f"{kind}:{X.cfg_name(cfg)}:{S.hex() if len(S) <= 64 else label}:{how}",
               f"[{X.cfg_name(cfg)}] input {S.hex() if len(S) <= 80 else label} ({how}): {msg}", case, size=len(S))


def _account(p: core.Part, frames) -> None:
    p.add("executions")
    if frames:
        nv = sum(1 for f in frames if f.is_valid)
        p.add("frames", len(frames))
        p.add("valid_frames", nv)
        p.out("returned_valid" if nv == len(frames) else ("returned_invalid" if nv == 0 else "returned_mixed"))
    else:
        p.out("returned_none")


# ---- E1 octets ----------------------------------------------------------------------------------------------

def _work_octets(task) -> core.Part:
    cfg, alpha, N, prefix, snap_upto = task
    p = core.Part()
    for L in range(len(prefix), N + 1):
        for tail in itertools.product(alpha, repeat=L - len(prefix)):
            S = bytes(prefix + tail)
            for how, chunks in (("oneshot", [S]), ("bytewise", X.bytewise(S))):
                frames, r = X.feed(cfg, chunks)
                _account(p, frames)
                p.add("events", len(chunks))
                if frames:
                    errs = []
                    for f in frames:
                        errs += [(e.split(":", 1)[0], e) for e in X.frame_errors(f)]
                    if not RH.contained(S, [f.as_bytes for f in frames], cfg[0]):
                        errs.append(("containment", "containment: returned frames " +
                                     " ".join(f.as_bytes.hex() for f in frames) + " not disjoint in-order inter-flag segments"))
                    if errs:
                        _report(p, cfg, S, chunks, errs, "", how)
                    if how == "oneshot":
                        p.add("nontrivial")
                if how == "bytewise" and L <= snap_upto:
                    p.d.add(digest(r))
    return p


# ---- E1 tokens ----------------------------------------------------------------------------------------------

def _work_tokens(task) -> core.Part:
    cfg, N, prefix = task
    p = core.Part()
    for L in range(len(prefix), N + 1):
        for tail in itertools.product(X.TOKN, repeat=L - len(prefix)):
            w = prefix + tail
            parts = [X.TOK[t] for t in w]
            S = b"".join(parts)
            for how, chunks in (("oneshot", [S]), ("tokenwise", parts)):
                errs, frames = X.exec_errors(cfg, S, chunks)
                _account(p, frames)
                p.add("events", len(chunks))
                if frames and how == "oneshot":
                    p.add("nontrivial")
                if errs:
                    _report(p, cfg, S, chunks, errs, "tokens " + " ".join(w), how)
        if p.full("containment") and p.full("valid"):
            break
    return p


# ---- E3 -----------------------------------------------------------------------------------------------------

def base_streams(stuffing: bool, tier: str):
    """(label, stream, spans) - frames from the pool with their separating flags."""
    pool = X.frame_pool()
    short = [k for k in pool if k != "max2047"]
    seqs = [(k,) for k in short]
    core3 = ("hdr_only", "short", "flagesc", "badfcs")
    if tier == "quick":
        seqs += list(itertools.product(core3, repeat=2))
        seqs += [(a, "short") for a in ("wronglen", "addr24", "segbit")] + [("short", a) for a in ("wronglen", "addr24", "segbit")]
        seqs += [t for t in itertools.product(core3, repeat=3) if len(set(t)) == 3][:3]
    else:
        seqs += list(itertools.product(short, repeat=2))
        seqs += list(itertools.product(short, repeat=3))
    out = []
    for seq in seqs:
        fills = (1, 2, 3) if len(seq) <= 2 and set(seq) <= set(core3) else (1,)
        for fill in fills:
            S = bytearray(bytes([RH.FLAG]) * fill)
            spans = []
            for k in seq:
                w = RH.wire(pool[k], stuffing)
                spans.append((len(S), len(S) + len(w)))
                S += w
                S += bytes([RH.FLAG]) * fill
            out.append(("+".join(seq) + f"/fill{fill}", bytes(S), tuple(spans)))
    return out


def _work_e3(task) -> core.Part:
    label, S0, spans, cfgs, k, pairs = task
    p = core.Part()
    for ed, S in devs.edits_upto(S0, k, devs.HDLC_SUBS, devs.HDLC_INS, spans):
        n = len(S)
        p.add("streams")
        for cfg in cfgs:
            chunkings = [("oneshot", [S]), ("bytewise", X.bytewise(S))]
            chunkings += [(f"cut{c[0]}", X.split(S, c)) for c in X.single_cuts(n) if c]
            if pairs and len(ed) == 0 and n <= 60:
                chunkings += [(f"cut{c[0]},{c[1]}", X.split(S, c)) for c in X.pair_cuts(n)]
            for how, chunks in chunkings:
                errs, frames = X.exec_errors(cfg, S, chunks)
                _account(p, frames)
                p.add("events", len(chunks))
                if frames and how == "oneshot":
                    p.add("nontrivial")
                if errs:
                    _report(p, cfg, S, chunks, errs, f"{label} edits={list(ed)}", how)
        if sum(p.vk.values()) >= 3 * core.MAX_PER_KIND:
            p.capped = True
            break
    return p


def _work_long(task) -> core.Part:
    """The 2047-octet frame: edits and cuts at selected positions only (cost)."""
    cfg, stuffing = task
    p = core.Part()
    pool = X.frame_pool()
    w = RH.wire(pool["max2047"], stuffing)
    S0 = bytes([RH.FLAG]) + w + bytes([RH.FLAG]) + RH.wire(pool["short"], stuffing) + bytes([RH.FLAG])
    n0 = len(S0)
    positions = sorted(set(list(range(0, 12)) + [100, 1000, 2040] + list(range(len(w) - 4, len(w) + 3)) + [n0 - 3, n0 - 1]))
    for ed, S in devs.edits_upto(S0, 1, devs.HDLC_SUBS, devs.HDLC_INS, ((1, 1 + len(w)),), positions):
        n = len(S)
        cuts = sorted(set([1, 2, 9, 10, 1000, len(w) - 1, len(w), len(w) + 1, len(w) + 2, n - 2, n - 1]))
        chunkings = [("oneshot", [S])] + [(f"cut{c}", X.split(S, (c,))) for c in cuts if 0 < c < n]
        chunkings.append(("fixed64", X.fixed(S, 64)))
        for how, chunks in chunkings:
            errs, frames = X.exec_errors(cfg, S, chunks)
            _account(p, frames)
            p.add("events", len(chunks))
            if frames and how == "oneshot":
                p.add("nontrivial")
            if errs:
                _report(p, cfg, S, chunks, errs, f"max2047+short edits={list(ed)}", how)
    return p


def _work_aligned(task) -> core.Part:
    """Mid-size and maximum-size frames with flag/escape octets in the information field: pairs of cuts aligned with
    those octets and middle chunks of 1..1024 octets (thresholds of 'large chunk' fast paths)."""
    cfg, = task
    from mc.props.C02 import CONTENTS

    p = core.Part()
    pool = X.frame_pool()
    streams = list(X.midsize_streams(cfg[0]))
    for cname in ("mix5e5d", "ramp"):
        fr = RH.build_frame(0xA, 0, b"\x01", b"\x21", 0x13, CONTENTS[cname](2038))
        streams.append((f"max2047({cname})+short", b"\x7e" + RH.wire(fr, cfg[0]) + b"\x7e" + RH.wire(pool["short"], cfg[0]) + b"\x7e"))
    for label, S in streams:
        fam = [("oneshot", [S])] + [(f"cut{i},{j}", X.split(S, (i, j))) for i, j in X.escape_aligned_cuts(S, 10)]
        fam += [(f"fixed{k}", X.fixed(S, k)) for k in (63, 64, 65, 128, 256)]
        for how, chunks in fam:
            errs, frames = X.exec_errors(cfg, S, chunks)
            _account(p, frames)
            p.add("events", len(chunks))
            if how == "oneshot" and frames:
                p.add("nontrivial")
            if errs:
                _report(p, cfg, S, chunks, errs, label, how)
    return p


def _work_sweep(task) -> core.Part:
    """Frames covering every octet value in every check-sequence position and special 16-bit HCS/FCS values (0000, FFFF,
    flag/escape pairs), alone and after long periodic noise: the per-frame oracle on readers with and without history."""
    cfg, lo, hi = task
    p = core.Part()
    from mc.props import C16
    noises = [b""]
    if lo == 0:
        noises += [nz for _, nz in list(C16.long_noises("hdlc", True))[::37]][:12]
    for label, fr in X.fcs_sweep_frames()[lo:hi]:
        for nz in noises:
            S = nz + b"\x7e" + RH.wire(fr, cfg[0]) + b"\x7e\x7e" + RH.wire(fr, cfg[0]) + b"\x7e"
            for how, chunks in (("oneshot", [S]), ("fixed7", X.fixed(S, 7))) + ((("bytewise", X.bytewise(S)),) if not nz else ()):
                errs, frames = X.exec_errors(cfg, S, chunks)
                _account(p, frames)
                p.add("events", len(chunks))
                if frames and how == "oneshot":
                    p.add("nontrivial")
                # the last frame sent is intact and stands between its own flags: it must come back valid (C02/C16 clause,
                # checked here too because 'valid exactly when intact' needs an intact frame to be returned at all)
                if errs:
                    _report(p, cfg, S, chunks, errs, f"{label} after {len(nz)} B of noise", how)
        if p.full("valid"):
            p.capped = True
            break
    return p


def main(run: core.Run) -> int:
    q = run.quick
    run.rule = ("every string over the reduced octet alphabets / every token sequence up to the bound, and every stream "
                "within <=k edits of each base stream, each under one-shot, octet-wise and every single cut, x 4 reader "
                "configurations; non-trivial = distinct (configuration, input) whose one-shot run returned >=1 frame")
    bind_fixtures(run)
    N, NS, NT = (8, 7, 6) if q else (10, 9, 8)
    run.bounds = {"octet_strings": f"Sigma_h^<={N} (no stuffing), Sigma_h+^<={NS} (stuffing)", "token_sequences": f"<={NT} tokens",
                  "deviations": "<=1 edit (quick) on singles, 22 pairs and 6 triples" if q else
                  "<=1 edit on all singles/pairs/triples, <=2 edits on single frames; all 4 configurations on both wire forms",
                  "chunkings": "one-shot, octet-wise, every single cut (every pair of cuts for unedited streams <=60 octets)"}
    tasks = []
    for cfg in X.CFGS:
        alpha = X.SIGMA_HP if cfg[0] else X.SIGMA_H
        n = NS if cfg[0] else N
        tasks.append((cfg, alpha, 1, (), 1))
        for a in alpha:
            for b in alpha:
                tasks.append((cfg, alpha, n, (a, b), 6))
            tasks.append((cfg, alpha, 1, (a,), 6))
    run.log(f"E1 octets: {len(tasks)} partitions")
    run.merge(par.pmap(_work_octets, tasks, seed=run.seed))
    ttasks = []
    for cfg in X.CFGS:
        ttasks.append((cfg, 1, ()))
        for a in X.TOKN:
            ttasks.append((cfg, 1, (a,)))
            for b in X.TOKN:
                ttasks.append((cfg, NT, (a, b)))
    run.log(f"E1 tokens: {len(ttasks)} partitions")
    run.merge(par.pmap(_work_tokens, ttasks, seed=run.seed))
    e3 = []
    for stuffing in (False, True):
        cfgs = tuple(c for c in X.CFGS if c[0] == stuffing) if q else X.CFGS
        for label, S, spans in base_streams(stuffing, run.tier):
            nfr = label.count("+") + 1
            k = 1
            if not q and nfr == 1:
                k = 2
            e3.append((f"{'stuffed' if stuffing else 'plain'}:{label}", S, spans, cfgs, k, True))
    run.log(f"E3: {len(e3)} base streams")
    run.merge(par.pmap(_work_e3, e3, seed=run.seed))
    run.merge(par.pmap(_work_long, [(cfg, cfg[0]) for cfg in X.CFGS], seed=run.seed))
    run.merge(par.pmap(_work_aligned, [(cfg,) for cfg in X.CFGS], seed=run.seed))
    # ways of handing the chunks over that must not matter (one receive buffer re-used for every call, chunk objects wiped
    # after the call, empty chunks, other live reader instances left in the middle of a frame, time passing, deep copy)
    from mc.props import C06

    vt = [(f"{'stuffed' if st else 'plain'}:{label}", S_, X.CFGS) for st in (False, True) for label, S_, _ in base_streams(st, "quick")][::3]
    run.merge(par.pmap(C06._work_variants, vt, seed=run.seed))
    nsw = len(X.fcs_sweep_frames())
    run.merge(par.pmap(_work_sweep, [(cfg, lo, lo + 50) for cfg in X.CFGS for lo in range(0, nsw, 50)], seed=run.seed))
    tot = run.total
    tot.sample({"cfg": "stuffing=1,abort=0", "input": "7e" + X.F7.hex() + "7e", "returned": [X.F7.hex()], "is_valid": [True]})
    tot.sample({"tokens": "F h10 i10 F", "input": (b"\x7e" + X.F10 + b"\x7e").hex(), "note": "flag octet inside the information field"})
    run.assumptions = ["reference model mc/ref/hdlc.py (frame builder bound to the captured frames of tests/test_hdlc.py)",
                       "octets outside the reduced alphabets are reached only through the edited realistic streams (data independence of the reader)"]
    ex = tot.c.get("executions", 0)
    return run.finish(states=len(tot.d), transitions=tot.c.get("events", 0), traces=ex, evaluations=ex,
                      distinct_nontrivial=tot.c.get("nontrivial", 0))
