"""C08 - Kaifa lists decode to the transmitted values with the documented scaling.  E5: the five positional layouts and
the OBIS-tagged layout x value alphabets per position (distinct registers so a swap is visible), frame and bare body."""
from __future__ import annotations

from mc import core, cosemx, par
from mc.ref import cosem as RC

CLK = (2020, 1, 25, 6, 14, 10, 0xFF, None, 0, 6)
APDU = (2023, 12, 31, 1, 2, 3, 0xFF, -60, 0, 7)
TEXTS = {"list_ver_id": "KFM_001", "meter_id": "6970631402614476", "meter_type": "MA304H3E"}


def base_values(names, offset=0):
    v = {}
    for i, n in enumerate(names):
        if n in TEXTS:
            v[n] = TEXTS[n]
        elif n == "meter_datetime":
            v[n] = CLK
        else:
            v[n] = 1000 * (i + 1) + 7 * i + offset  # all distinct
    return v


def check(layout, values) -> list[str]:
    from han import kaifa

    if layout == "se":
        names = [n for _, n in RC.KAIFA_SE]
        body = RC.kaifa_body_obis(values)
    else:
        names = RC.KAIFA_LAYOUTS[layout]
        body = RC.kaifa_body_positional(names, values)
    errs = []
    try:  # a call that fails (truncated body) comes first: it must leave nothing behind
        kaifa.decode_notification_body(body[:-1])
    except Exception:  # noqa: BLE001
        pass
    try:
        d1 = kaifa.decode_notification_body(body)
        d2 = kaifa.decode_frame_content(RC.llc(body, b"\x09\x0c" + RC.dt12(*APDU)))
    except Exception as ex:  # noqa: BLE001
        return [f"decoder raised {type(ex).__name__}: {ex} for body {body.hex()[:100]}"]
    w1 = RC.kaifa_expected(names, values)
    w2 = RC.kaifa_expected(names, values, apdu=APDU)
    if "meter_datetime" in names:
        w2["meter_datetime"] = ("dt", RC.exp_dt(*values["meter_datetime"]))  # the list's own clock wins
    errs += [f"body: {e}" for e in RC.dict_errors(d1, w1)]
    errs += [f"frame: {e}" for e in RC.dict_errors(d2, w2)]
    if not errs:
        d1.clear()
        d2["current_l1"] = -1
        errs += [f"second decode of the same frame: {e}" for e in RC.dict_errors(kaifa.decode_frame_content(bytearray(RC.llc(body, b"\x09\x0c" + RC.dt12(*APDU)))), w2)]
    return errs


def replay(case: dict) -> list[str]:
    v = {k: (tuple(x) if isinstance(x, list) else x) for k, x in case["values"].items()}
    return check(case["layout"], v)


def _report(p, layout, values, errs, label):
    p.viol("kaifa", f"kaifa:{layout}:{sorted(values.items())!r:.200}", f"layout {layout} {label}: {errs[0]}", {"layout": layout, "values": {k: (list(x) if isinstance(x, tuple) else x) for k, x in values.items()}}, size=len(values))


def _work(task) -> core.Part:
    layout, seed, sweep = task
    p = core.Part()
    names = [n for _, n in RC.KAIFA_SE] if layout == "se" else RC.KAIFA_LAYOUTS[layout]
    nums = [n for n in names if n not in TEXTS and n != "meter_datetime"]
    if sweep is None:
        for off in (0, 1, 500):
            v = base_values(names, off)
            e = check(layout, v)
            p.add("evaluations")
            p.add("nontrivial")
            if e:
                _report(p, layout, v, e, "distinct registers")
        for val in (0, 1, 2**32 - 1):  # all-equal rows
            v = base_values(names)
            for n in nums:
                v[n] = val
            e = check(layout, v)
            p.add("evaluations")
            p.add("nontrivial")
            if e:
                _report(p, layout, v, e, f"all registers {val}")
        alpha = cosemx.int_alphabet("u32", seed)
        for n in nums:
            for val in alpha:
                v = base_values(names)
                v[n] = val
                e = check(layout, v)
                p.add("evaluations")
                p.add("nontrivial")
                p.out("scaled" if n.startswith(("current", "voltage")) else "unscaled")
                if e:
                    _report(p, layout, v, e, f"{n}={val}")
                    if p.full("kaifa"):
                        p.capped = True
                        return p
        for t in ("", "A", "x" * 200, "KFM_001", "".join(chr(c) for c in range(0x20, 0x7F))):
            for n in TEXTS:
                if n in names:
                    v = base_values(names)
                    v[n] = t
                    e = check(layout, v)
                    p.add("evaluations")
                    p.add("nontrivial")
                    if e:
                        _report(p, layout, v, e, f"{n}={t!r:.20}")
    elif sweep == "pairs":
        import itertools
        small = (0, 1, 999, 1000, 65535, 65536, 2**31, 2**32 - 1)
        for a, b in itertools.combinations(nums, 2):
            for va in small:
                for vb in small:
                    v = base_values(names)
                    v[a], v[b] = va, vb
                    e = check(layout, v)
                    p.add("evaluations")
                    p.add("nontrivial")
                    if e:
                        _report(p, layout, v, e, f"{a}={va}, {b}={vb}")
                        if p.full("kaifa"):
                            p.capped = True
                            return p
    elif isinstance(sweep, tuple) and sweep[0] == "lattice":
        _, field, lo, hi = sweep
        for hi16 in range(lo, hi):
            for k in range(64):
                val = (hi16 * 257 % 65536) * 65536 + (k * 1021 + hi16 * 7) % 65536  # spread over the whole 32-bit range
                v = base_values(names)
                v[field] = val
                e = check(layout, v)
                p.add("evaluations")
                p.add("nontrivial")
                if e:
                    _report(p, layout, v, e, f"{field}={val}")
                    if p.full("kaifa"):
                        p.capped = True
                        return p
    elif sweep == "words":
        have = [n for n in ("list_ver_id", "meter_id", "meter_type") if n in names]
        for t in cosemx.word_texts() + cosemx.edge_texts():
            for fld in have:
                v = base_values(names)
                v[fld] = t
                e = check(layout, v)
                p.add("evaluations")
                p.add("nontrivial")
                if e:
                    _report(p, layout, v, e, f"{fld} = {t!r}")
                    if p.full("kaifa"):
                        return p
    elif sweep == "textlen":
        lens = (0, 1, 5, 6, 7, 8, 11, 12, 13, 16, 32)
        have = [n for n in ("list_ver_id", "meter_id", "meter_type") if n in names]
        import itertools
        for combo in itertools.product(lens, repeat=len(have)):
            v = base_values(names)
            for n, ln in zip(have, combo):
                v[n] = ("KFM_0123456789ABCDEFGHIJKLMNOPQRSTUV")[:ln]
            e = check(layout, v)
            p.add("evaluations")
            p.add("nontrivial")
            if e:
                _report(p, layout, v, e, f"text lengths {dict(zip(have, combo))}")
                if p.full("kaifa"):
                    p.capped = True
                    return p
    else:
        field, lo, hi, shift = sweep
        for x in range(lo, hi):
            v = base_values(names)
            v[field] = (x << shift) | (0x1234 if shift else 0)
            e = check(layout, v)
            p.add("evaluations")
            p.add("nontrivial")
            if e:
                _report(p, layout, v, e, f"{field}={v[field]}")
                if p.full("kaifa"):
                    p.capped = True
                    return p
    return p


def main(run: core.Run) -> int:
    q = run.quick
    run.rule = ("layouts: positional 1/9/13/14/18 elements and the 18-element OBIS-tagged list; registers all distinct, then per position the u32 boundary/bit-pattern/seed alphabet with the others fixed, "
                "all-equal rows, text fields over 5 strings; complete 2^16 sweeps of the low (and thorough: high) half-word of one current and one voltage register; each as bare body and as frame with an APDU date-time; "
                "non-trivial = distinct lists decoded")
    cosemx.bind_fixtures()
    tasks = [(lay, run.seed, None) for lay in (1, 9, 13, 14, 18, "se")] + [(lay, run.seed, "textlen") for lay in (9, 13, 14, 18, "se")] + [(lay, run.seed, "pairs") for lay in (9, 13, 14, 18, "se")] + [(lay, run.seed, "words") for lay in (13, 18, "se")]
    for field in ("current_l2", "voltage_l3", "active_power_import"):
        for a in range(0, 256 if q else 8192, 64):
            tasks.append((18, run.seed, ("lattice", field, a, a + 64)))
    for field in ("current_l1", "voltage_l1") if q else ("current_l1", "current_l3", "voltage_l1", "voltage_l2"):
        for shift in ((0,) if q else (0, 16)):
            for a in range(0, 65536, 4096):
                tasks.append((13 if q else 18, run.seed, (field, a, a + 4096, shift)))
    run.merge(par.pmap(_work, tasks, seed=run.seed))
    tot = run.total
    tot.sample({"layout": 1, "body": RC.kaifa_body_positional(RC.KAIFA_LAYOUTS[1], {"active_power_import": 1320}).hex(), "expected": {"active_power_import": 1320, "meter_manufacturer": "Kaifa"}})
    tot.sample({"layout": 13, "register current_l2": 57, "expected": 0.057})
    run.bounds = {"layouts": [1, 9, 13, 14, 18, "se"], "pairwise": "every pair of numeric positions x 8x8 values", "lattice": "16 384 (thorough 524 288) values spread over the whole 32-bit range for one current, one voltage and one power register", "text_lengths": "full product of lengths {0,1,5,6,7,8,11,12,13,16,32} over the three identification strings", "u32_alphabet": len(cosemx.int_alphabet("u32", run.seed))}
    run.assumptions = ["reference encoders and documented position/OBIS tables in mc/ref/cosem.py (bound to the fixtures of tests/test_kaifa.py)", "32-bit registers: boundaries, bit patterns and complete 16-bit sub-cubes"]
    ev = tot.c.get("evaluations", 0)
    return run.finish(states=tot.c.get("nontrivial", 0), transitions=ev, traces=ev, evaluations=ev, distinct_nontrivial=tot.c.get("nontrivial", 0))
