"""C02 - HDLC: every well-formed frame on a clean stream is delivered once, in order.
Bounded-exhaustive frame shapes x sequences x fill x leading noise, each under an enumerated family of
chunkings (E3 with zero deviations), on the real reader in all four configurations."""
from __future__ import annotations

import itertools

from mc import core, par
from mc import hdlcx as X
from mc.ref import hdlc as RH
from mc.snap import digest

CONTENTS = {
    "zeros": lambda n: bytes(n),
    "flags": lambda n: b"\x7e" * n,
    "escs": lambda n: b"\x7d" * n,
    "escflag": lambda n: (b"\x7d\x7e" * n)[:n],
    "end_esc": lambda n: (bytes(range(1, 256)) * 9)[:max(n - 1, 0)] + (b"\x7d" if n else b""),
    "ramp": lambda n: (bytes(range(256)) * 9)[:n],
    "mix5e5d": lambda n: (b"\x5e\x5d\x7d\x5e\x7e\x5d" * 400)[:n],
}
ADDRS = {1: b"\x03", 2: b"\x02\x23", 3: b"\x7e\x00\xff", 4: b"\x00\x02\xfe\x7d"}
SRC = {1: b"\x21", 2: b"\x10\x7f", 3: b"\x7c\x7c\x01", 4: b"\xfe\xfe\xfe\xff"}
CONTROLS = (0x00, 0x13, 0xFF)
TYPES = ((0xA, 0), (0x0, 0), (0xF, 1), (0x7, 1))
NOISE = {"none": b"", "00": b"\x00", "7d": b"\x7d", "a007": b"\xa0\x07", "40": bytes(range(0x80, 0xA8))}


def spec_frame(spec):
    (ftype, seg), dl, sl, control, cname, plen = spec
    overhead = 2 + dl + sl + 1 + 2 + 2
    if plen == "max":
        plen = RH.MAXLEN - overhead
    elif plen == "max-1":
        plen = RH.MAXLEN - overhead - 1
    info = CONTENTS[cname](plen)
    return RH.build_frame(ftype, seg, ADDRS[dl], SRC[sl], control, info), (ADDRS[dl], SRC[sl], control, info)


def expect_errors(cfg, frames_sent, chunks) -> list[str]:
    """Run the real reader; the frames returned must be exactly the frames sent."""
    got, _ = X.feed(cfg, chunks)
    errs = []
    if [g.as_bytes for g in got] != [f for f in frames_sent]:
        errs.append(f"returned {len(got)} frame(s) {[g.as_bytes.hex()[:40] for g in got][:4]}, sent {len(frames_sent)} "
                    f"{[f.hex()[:40] for f in frames_sent][:4]}")
        return errs
    for g, f in zip(got, frames_sent):
        fl = RH.frame_fields(f)
        if g.is_valid is not True:
            errs.append(f"frame {f.hex()[:60]} delivered with is_valid={g.is_valid!r}")
        h = g.header
        cp = fl["cp"]
        if (g.payload or b"") != (fl["payload"] or b""):
            errs.append(f"frame {f.hex()[:60]}: payload {g.payload!r:.60} != sent information field")
        got_h = (h.destination_address, h.source_address, h.control, h.header_check_sequence, g.frame_check_sequence, h.frame_length)
        want = (fl["dest"], fl["src"], fl["control"], (f[cp + 1] << 8) | f[cp + 2], (f[-2] << 8) | f[-1], len(f))
        if got_h != want:
            errs.append(f"frame {f.hex()[:60]}: header accessors {got_h!r} != sent {want!r}")
    return errs


def replay(case: dict) -> list[str]:
    cfg = tuple(case["cfg"])
    frames = [bytes.fromhex(f) for f in case["frames"]]
    S = RH.stream(frames, cfg[0], case["fill"], bytes.fromhex(case["lead"]))
    if case["chunking"][0] == "cuts":
        chunks = X.split(S, case["chunking"][1])
    elif case["chunking"][0] == "fixed":
        chunks = X.fixed(S, case["chunking"][1], case["chunking"][2])
    else:
        chunks = X.bytewise(S)
    return expect_errors(cfg, frames, chunks)


def _chk(p, cfg, frames, fill, lead, chunking, chunks, label):
    errs = expect_errors(cfg, frames, chunks)
    p.add("executions")
    p.add("events", len(chunks))
    p.out(f"delivered_all_{len(frames)}" if not errs else "not_delivered")
    if errs:
        kind = "clean_delivery"
        total = sum(len(f) for f in frames)
        case = {"cfg": list(cfg), "frames": [f.hex() for f in frames], "fill": fill, "lead": lead.hex(), "chunking": list(chunking)}
        p.viol(kind, f"{kind}:{X.cfg_name(cfg)}:{label}:{chunking}", f"[{X.cfg_name(cfg)}] {label} fill={fill} lead={lead.hex()} chunking={chunking}: {errs[0]}",
               case, size=total)
    return not errs


def chunkings_for(n: int, level: str):
    """(descriptor, cuts-or-None) families.  level: small | seq | big_q | big_t"""
    yield ("cuts", [])
    yield ("bytewise",)
    if level in ("small", "seq", "seqpairs"):
        for i in range(1, n):
            yield ("cuts", [i])
        for k in range(2, 10):
            for ph in range(0, k):
                yield ("fixed", k, ph)
    if level == "seqpairs" and n <= 80:
        for i in range(1, n):
            for j in range(i + 1, n):
                yield ("cuts", [i, j])
    if level in ("big_q", "big_t"):
        for k in (2, 3, 7, 64, 1000, 2047, 2048):
            yield ("fixed", k, 0)
        if level == "big_q":
            pts = sorted(set(list(range(1, 14)) + [100, 1000, 1024, 2040] + list(range(max(n - 8, 1), n))))
        else:
            pts = range(1, n)
        for i in pts:
            if 0 < i < n:
                yield ("cuts", [i])


def _mk(S, ch):
    if ch[0] == "cuts":
        return X.split(S, ch[1])
    if ch[0] == "fixed":
        return X.fixed(S, ch[1], ch[2])
    return X.bytewise(S)


def _work_single(task) -> core.Part:
    specs, level = task
    p = core.Part()
    for spec in specs:
        frame, _ = spec_frame(spec)
        assert RH.expected_valid(frame)
        for cfg in X.CFGS:
            if not RH.clean_domain(frame, cfg[0], cfg[1]):
                p.add("outside_domain")
                continue
            S = RH.stream([frame], cfg[0], 1)
            p.add("nontrivial")
            p.d.add(digest(X.feed(cfg, [S])[1]))
            for ch in chunkings_for(len(S), level):
                _chk(p, cfg, [frame], 1, b"", ch, _mk(S, ch), f"frame {spec}")
                if p.full("clean_delivery"):
                    p.capped = True
                    return p
    return p


def core_pool():
    pool = X.frame_pool()
    return {
        "hdr_only": pool["hdr_only"],
        "short": pool["short"],
        "flagesc": pool["flagesc"],
        "addr24": pool["addr24"],
        "segbit": pool["segbit"],
        "endesc": RH.build_frame(0xA, 0, b"\x01", b"\x21", 0x13, b"\x01\x7d"),
    }


def _work_seq(task) -> core.Part:
    names, fill, nname, level = task
    p = core.Part()
    pool = core_pool()
    frames = [pool[k] for k in names]
    lead = NOISE[nname]
    for cfg in X.CFGS:
        if not all(RH.clean_domain(f, cfg[0], cfg[1]) for f in frames):
            p.add("outside_domain")
            continue
        S = RH.stream(frames, cfg[0], fill, lead)
        p.add("nontrivial")
        first = True
        for ch in chunkings_for(len(S), level):
            chunks = _mk(S, ch)
            _chk(p, cfg, frames, fill, lead, ch, chunks, "+".join(names))
            if first:
                first = False
            if p.full("clean_delivery"):
                p.capped = True
                return p
        r = X.new_reader(cfg)
        for i in range(len(S)):  # distinct reader states visited along the octet-wise run
            r.read(S[i:i + 1])
            p.d.add(digest(r))
    return p


def _work_sweep(task) -> core.Part:
    """Every octet value in every check-sequence position (FCS low/high, HCS low/high): each such frame alone and between two others."""
    lo, hi = task
    p = core.Part()
    pool = core_pool()
    for label, fr in X.fcs_sweep_frames()[lo:hi]:
        for frames in ([fr], [pool["short"], fr, pool["hdr_only"]]):
            for cfg in X.CFGS:
                if not all(RH.clean_domain(f, cfg[0], cfg[1]) for f in frames):
                    p.add("outside_domain")
                    continue
                for fill in (1, 2):
                    S = RH.stream(frames, cfg[0], fill)
                    p.add("nontrivial")
                    for ch in chunkings_for(len(S), "small" if len(frames) == 1 else "big_q"):
                        _chk(p, cfg, frames, fill, b"", ch, _mk(S, ch), label)
        if p.full("clean_delivery"):
            p.capped = True
            break
    return p


def nested_payloads():
    """Information fields that themselves look like protocol traffic: a complete valid frame between flags, a frame
    header, a P1 readout, a run of flags, an abort sequence.  'Any payload bytes' includes these."""
    pool = X.frame_pool()
    inner = [pool["hdr_only"], pool["short"], RH.build_frame(0xA, 0, b"\x01", b"\x21", 0x13, bytes(range(1, 30)))]
    out = {}
    for i, f in enumerate(inner):
        out[f"flag+frame{i}+flag"] = b"\x01\x02\x7e" + f + b"\x7e\x03"
        out[f"frame{i}+flag"] = f + b"\x7e"
        out[f"flag+frame{i}"] = b"\x7e" + f
        out[f"2x flag+frame{i}+flag"] = (b"\x7e" + f + b"\x7e") * 2
        out[f"flag+stuffed frame{i}+flag"] = b"\x7e" + RH.stuff(f) + b"\x7e"
    out["frame header only"] = pool["short"][:8]
    out["p1 readout"] = b"/ABC5xyz\r\n1.0(1)\r\n!FFDA\r\n"
    out["flags"] = b"\x7e" * 9
    out["abort"] = b"\x11\x7d\x7e\x22"
    out["esc esc"] = b"\x7d\x7d\x5e\x5d\x7d"
    return out


def _work_nested(task) -> core.Part:
    names, = task
    p = core.Part()
    pays = nested_payloads()
    short = core_pool()["short"]
    for nm in names:
        for dl, sl in ((1, 1), (2, 4)):
            frame = RH.build_frame(0xA, 0, ADDRS[dl], SRC[sl], 0x13, pays[nm])
            for frames in ([frame], [short, frame, short], [frame, frame]):
                for cfg in X.CFGS:
                    if not all(RH.clean_domain(f, cfg[0], cfg[1]) for f in frames):
                        p.add("outside_domain")
                        continue
                    for fill in (1, 2):
                        S = RH.stream(frames, cfg[0], fill)
                        p.add("nontrivial")
                        for ch in chunkings_for(len(S), "small" if len(S) < 140 else "big_q"):
                            _chk(p, cfg, frames, fill, b"", ch, _mk(S, ch), f"payload '{nm}'")
                        if p.full("clean_delivery"):
                            p.capped = True
                            return p
    return p


def _work_lengths(task) -> core.Part:
    """Every payload length in the task's list (not only 0,1,2,17,max): length thresholds in the reader show here."""
    lens, = task
    p = core.Part()
    for n in lens:
        for cname in ("ramp", "escflag"):
            spec = (TYPES[0], 1, 1, 0x13, cname, n)
            frame, _ = spec_frame(spec)
            for cfg in X.CFGS:
                if not RH.clean_domain(frame, cfg[0], cfg[1]):
                    continue
                S = RH.stream([frame, core_pool()["short"]], cfg[0], 1)
                p.add("nontrivial")
                for ch in (("cuts", []), ("fixed", 64, 0), ("fixed", 7, 3), ("cuts", [len(S) // 2])) + ((("bytewise",),) if n <= 64 else ()):
                    _chk(p, cfg, [frame, core_pool()["short"]], 1, b"", ch, _mk(S, ch), f"payload length {n} ({cname})")
        if p.full("clean_delivery"):
            p.capped = True
            break
    return p


def _work_fill(task) -> core.Part:
    """Inter-frame fill of n flags for every n in a range (counters/thresholds in the reader would show here)."""
    fills, = task
    p = core.Part()
    pool = core_pool()
    for names in (("short", "flagesc", "hdr_only"), ("addr24", "short")):
        frames = [pool[k] for k in names]
        for fill in fills:
            for cfg in X.CFGS:
                if not all(RH.clean_domain(f, cfg[0], cfg[1]) for f in frames):
                    continue
                S = RH.stream(frames, cfg[0], fill)
                p.add("nontrivial")
                fam = [("cuts", []), ("fixed", 7, 3), ("cuts", [fill // 2 + 1]), ("cuts", [fill]), ("fixed", 64, 0)]
                if fill <= 130:
                    fam.append(("bytewise",))
                for ch in fam:
                    _chk(p, cfg, frames, fill, b"", ch, _mk(S, ch), "+".join(names))
                if p.full("clean_delivery"):
                    p.capped = True
                    return p
    return p


def main(run: core.Run) -> int:
    q = run.quick
    run.rule = ("frame shapes = product of (type,S) x address lengths 1..4 x 1..4 x control x payload content x payload length; sequences = "
                "ordered pairs/triples of a 6-frame pool x fill 1..3 x leading flag-free noise; each stream under the listed chunkings; "
                "non-trivial = distinct (configuration, stream) inside the property's domain (every one must deliver all its frames)")
    small_lens = (0, 1, 2, 17)
    specs = [(t, dl, sl, c, cn, n) for t in TYPES for dl in (1, 2, 3, 4) for sl in (1, 2, 3, 4) for c in CONTROLS
             for cn in CONTENTS for n in small_lens]
    tasks = [(specs[i::64], "small") for i in range(64)]
    big = [(TYPES[0], dl, sl, 0x13, cn, n) for (dl, sl) in ((1, 1), (4, 4), (2, 1)) for cn in CONTENTS for n in ("max", "max-1")]
    tasks += [([b], "big_q" if q else "big_t") for b in big]
    run.log(f"single frames: {len(specs)} small shapes, {len(big)} maximum-size shapes")
    run.merge(par.pmap(_work_single, tasks, seed=run.seed))
    names = list(core_pool())
    seqt = []
    for pair in itertools.product(names, repeat=2):
        for fill in (1, 2, 3):
            for nn in NOISE:
                lvl = "seqpairs" if (nn == "none" and (fill == 1 or not q)) else "seq"
                seqt.append((pair, fill, nn, lvl))
    triples = list(itertools.product(names, repeat=3))
    if q:
        triples = [t for t in triples if len(set(t)) == 3][::4]
    for tr in triples:
        for fill in ((1, 2) if q else (1, 2, 3)):
            for nn in (("none", "7d") if q else tuple(NOISE)):
                seqt.append((tr, fill, nn, "seq"))
    run.log(f"sequences: {len(seqt)} streams")
    run.merge(par.pmap(_work_seq, seqt, seed=run.seed))
    nsw = len(X.fcs_sweep_frames())
    run.merge(par.pmap(_work_sweep, [(lo, lo + 22) for lo in range(0, nsw, 22)], seed=run.seed))
    nn = list(nested_payloads())
    run.merge(par.pmap(_work_nested, [(nn[i::16],) for i in range(16)], seed=run.seed))
    plens = list(range(0, 301)) + (list(range(301, 2039, 7)) if q else list(range(301, 2039))) + [2036, 2037, 2038]
    plens = sorted(set(plens))
    run.merge(par.pmap(_work_lengths, [(plens[i::32],) for i in range(32)], seed=run.seed))
    fills = list(range(1, 131)) + [255, 256, 257, 1000, 2047, 2048, 4096]
    run.log(f"fill sweep: {len(fills)} fill lengths")
    run.merge(par.pmap(_work_fill, [(fills[i::16],) for i in range(16)], seed=run.seed))
    tot = run.total
    tot.sample({"cfg": "stuffing=1,abort=1", "frames": ["short", "flagesc"], "fill": 2, "lead": "7d", "wire": RH.stream([core_pool()["short"], core_pool()["flagesc"]], True, 2, b"\x7d").hex()})
    tot.sample({"frame_spec": "type A/S0, dest 4 octets, src 4 octets, control 13, content escflag, payload max (total 2047 octets)"})
    run.bounds = {"single_frames": f"{len(specs)} shapes with payload 0/1/2/17 + {len(big)} shapes of 2046/2047 octets",
                  "sequences": f"{len(seqt)} streams (pairs: all 36 x fill 1..3 x 5 noises; triples: {'subset' if q else 'all 216'})",
                  "nested_payloads": f"{len(nn)} information fields that look like protocol traffic (flag+valid frame+flag, stuffed frame, header, P1 readout, flag run, abort)",
                  "payload_length_sweep": "every payload length 0..300 and " + ("every 7th" if q else "every") + " length up to 2038, two contents, 4-5 chunkings",
                  "check_sequence_sweep": f"{nsw} frames covering every octet value in every FCS/HCS position, alone and between two frames",
                  "fill_sweep": "every fill length 1..130 and 255,256,257,1000,2047,2048,4096 on two multi-frame streams",
                  "chunkings": "one-shot, octet-wise, every single cut, fixed 2..9 x every phase; every pair of cuts for noise-free pairs <=80 octets; "
                               "maximum-size frames: fixed {2,3,7,64,1000,2047,2048} + " + ("selected single cuts" if q else "every single cut")}
    run.assumptions = ["frame builder mc/ref/hdlc.py; domain filter clean_domain() transcribes the statement's restrictions for the non-stuffing configurations"]
    ex = tot.c.get("executions", 0)
    return run.finish(states=max(len(tot.d), 1), transitions=tot.c.get("events", 0), traces=ex, evaluations=ex,
                      distinct_nontrivial=tot.c.get("nontrivial", 0))
