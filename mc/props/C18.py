"""C18 - reconnect pacing follows capped exponential back-off and the loss breaker.
Strategy object: explicit-state exploration (E2) of the real ExponentialBackOff over {failure, reset} to depth 14, every
max_delay 1..3600 evaluated in every state.  Manager: E6 - every attempt-outcome/lifetime script up to the bound on the
virtual-time loop with the wall clock substituted; oracle on the recorded time stamps of factory calls."""
from __future__ import annotations

import itertools

from mc import core, par, vloop
from mc.snap import digest

SETTINGS = ((5, 5, 60), (2, 7, 60), (10, 1, 60), (5, 5, 3), (3, 9, 1), (4, 4, 4), (1, 2, 2), (8, 4, 8))  # (threshold, sleep, max_delay)
OUTS = (("F", None), ("S", 1), ("S", 3), ("S", 10))


# ---- strategy object ---------------------------------------------------------------------------------------------

def backoff_errors(seq: str, max_delays=range(1, 3601)) -> list[str]:
    """seq over 'f' (failure) / 'r' (reset) applied to a fresh ExponentialBackOff."""
    from han import meter_connection as mc

    b = mc.ExponentialBackOff()
    n = 0
    for c in seq:
        if c == "f":
            b.failure()
            n += 1
        else:
            b.reset()
            n = 0
    errs = []
    if b.current_delay_sec != (0 if n == 0 else min(2 ** (n - 1), mc.BackOffStrategy.DEFAULT_MAX_DELAY_SEC)) or mc.BackOffStrategy.DEFAULT_MAX_DELAY_SEC != 60:
        errs.append(f"after {seq or '(nothing)'}: current_delay_sec {b.current_delay_sec} with the default max_delay, expected {0 if n == 0 else min(2 ** (n - 1), 60)}")
    for md in max_delays:
        b.max_delay = md
        want = 0 if n == 0 else min(2 ** (n - 1), md)
        got = b.current_delay_sec
        if got != want:
            errs.append(f"after {seq or '(nothing)'} with max_delay={md}: current_delay_sec {got}, expected {want}")
            break
    return errs


def _work_backoff(task) -> core.Part:
    """BFS over the real object: nodes = snapshot digests, reached by replaying the shortest history."""
    depth, = task
    from han import meter_connection as mc

    p = core.Part()
    seen = {}
    frontier = [""]
    b0 = mc.ExponentialBackOff()
    seen[digest(b0)] = ""
    for d in range(depth + 1):
        nxt = []
        for h in frontier:
            e = backoff_errors(h)
            p.add("evaluations", 3600)
            p.add("states_checked")
            if e:
                p.viol("backoff", f"backoff:{h}", e[0], {"kind": "backoff", "seq": h}, size=len(h))
            if d == depth:
                continue
            for c in "fr":
                b = mc.ExponentialBackOff()
                for x in h + c:
                    b.failure() if x == "f" else b.reset()
                p.add("transitions")
                dg = digest(b)
                if dg not in seen:
                    seen[dg] = h + c
                    nxt.append(h + c)
        frontier = nxt
    p.add("backoff_states", len(seen))
    # every sequence up to the depth leads to one of these states (checked: the state after a sequence only depends on
    # the number of failures since the last reset, as far as the snapshot can tell) - verify on all 2^(depth+1)-1 sequences
    for L in range(0, depth + 1):
        for tup in itertools.product("fr", repeat=L):
            b = mc.ExponentialBackOff()
            for x in tup:
                b.failure() if x == "f" else b.reset()
            if digest(b) not in seen:
                p.viol("backoff", f"backoff:unreached:{''.join(tup)}", f"sequence {''.join(tup)} reaches a state the BFS did not visit", {"kind": "backoff", "seq": "".join(tup)}, size=L)
            p.add("sequences")
    return p


def _work_backoff_runs(task) -> core.Part:
    """Run-length families beyond the BFS depth: f^k, f^k r, f^k r f^j, f^k r f^m r f^j for k up to 200 (the statement
    quantifies over sequences up to length 200; a saturation counter or overflow guard shows only after long runs)."""
    ks, = task
    p = core.Part()
    some = (1, 2, 3, 59, 60, 61, 3600)
    for k in ks:
        fam = ["f" * k, "f" * k + "r"] + ["f" * k + "r" + "f" * j for j in (1, 2, 3, 7)] + ["f" * k + "r" + "f" * 5 + "r" + "f" * j for j in (1, 2)] + ["r" * 3 + "f" * k]
        for seq in fam:
            e = backoff_errors(seq, some if k > 16 else range(1, 3601))
            p.add("sequences")
            p.add("evaluations", len(some))
            if e:
                short = seq if len(seq) <= 24 else f"f^{k}" + seq[k:]
                p.viol("backoff", f"backoff:{short}", e[0].replace(seq, short), {"kind": "backoff", "seq": seq}, size=len(seq))
    return p


# ---- manager -----------------------------------------------------------------------------------------------------

def pacing_errors(script, thr, slp, maxd, horizon=None, epoch=None, twin=0) -> list[str]:
    if horizon is None:
        horizon = 600.0 + 61.0 * len(script)
    sc = vloop.Scenario([(o[0], (o[2] if len(o) > 2 else 0), o[1]) for o in script] + [("S", 0, None)], threshold=thr, sleep_sec=slp, max_delay=maxd,
                        horizon=horizon + sum((o[2] if len(o) > 2 else 0) for o in script), epoch=epoch, twin_failures=twin).run()
    log = [(e[0], e[1], e[2]) for e in sc.log]
    errs = list(dict.fromkeys(sc.problems))
    n = 0  # consecutive failures
    last_loss = None
    armed = False
    prev = None
    eps = 1e-6
    for k, i, t in log:
        if k == "attempt" and prev is not None:
            pk, pi, pt = prev
            d = t - pt
            if pk == "fail":
                lo = min(2 ** (n - 1), maxd)
                hi = max(lo, slp if armed else 0)
                if not (lo - eps <= d <= hi + eps):
                    errs.append(f"attempt #{i} starts {d:g} s after failure #{n} in a row (allowed {lo}..{hi} s; breaker armed: {armed})")
            elif pk == "lost":
                lo = slp if armed else 0
                hi = max(lo, slp)  # the statement only bounds this wait from below; never longer than the breaker sleep is a sanity bound
                if sc.wall_is_virtual and not (lo - eps <= d <= hi + eps):
                    errs.append(f"attempt #{i} starts {d:g} s after a connection loss (allowed {lo}..{hi} s; two losses within {thr} s: {armed})")
            prev = None
        if k == "fail":
            n += 1
            prev = (k, i, t)
        elif k == "connected":
            n = 0
        elif k == "lost":
            if last_loss is not None:
                armed = (t - last_loss) < thr
            last_loss = t
            prev = (k, i, t)
    attempts = sum(1 for e in log if e[0] == "attempt")
    if attempts < len(script) + 1:
        errs.append(f"only {attempts} of {len(script) + 1} attempts within {horizon} virtual seconds")
    sc.cleanup()
    return errs


def replay(case: dict) -> list[str]:
    if case.get("kind") == "backoff":
        return backoff_errors(case["seq"])
    if case.get("twin"):
        return pacing_errors([tuple(x) for x in case["script"]], case["thr"], case["slp"], case["maxd"], twin=case["twin"])
    if case.get("epoch"):
        import datetime as _dt

        core.set_ambient(False, bool(case.get("dst_zone")))
        try:
            return pacing_errors([tuple(x) for x in case["script"]], case["thr"], case["slp"], case["maxd"], epoch=_dt.datetime.fromisoformat(case["epoch"]))
        finally:
            core.set_ambient(False, False)
    return pacing_errors([tuple(x) for x in case["script"]], case["thr"], case["slp"], case["maxd"])


def calendar_epochs():
    """UTC readings of the wall clock a few seconds before the moments at which a clock or calendar computation can
    jump: the hours around the European and US daylight-saving switches (both directions), midnight, new year, the end
    of February in a leap year, and the 2038 limit of 32-bit time stamps."""
    import datetime as _dt

    out = []
    for y, m, d in ((2026, 3, 29), (2026, 10, 25), (2026, 3, 8), (2026, 11, 1), (2024, 2, 29), (2025, 12, 31), (2038, 1, 19), (2026, 6, 15)):
        for h in range(0, 24) if (m, d) in ((3, 29), (10, 25)) else (0, 1, 2, 3, 6, 7, 8, 9, 23):
            out.append(_dt.datetime(y, m, d, h, 0, 0) - _dt.timedelta(seconds=11))
    out.append(_dt.datetime(2038, 1, 19, 3, 14, 7) - _dt.timedelta(seconds=11))
    return out


def _work_mgr_calendar(task) -> core.Part:
    """The loss breaker compares wall-clock readings: run loss scripts with the wall clock placed just before every
    calendar discontinuity, in a UTC process and in a process whose zone has daylight saving time."""
    epochs, scripts = task
    p = core.Part()
    for zone in (False, True):
        core.set_ambient(core.AMBIENT["lowprec"], zone)
        for ep in epochs:
            for script in scripts:
                for thr, slp, maxd in SETTINGS[:2]:
                    e = pacing_errors(script, thr, slp, maxd, epoch=ep)
                    p.add("executions")
                    p.add("nontrivial")
                    p.add("attempts", len(script) + 1)
                    p.out("paced_ok" if not e else "pacing_violation")
                    for m in e:
                        p.viol("pacing", f"pacing:cal:{ep.isoformat()}:{zone}:{script}:{thr}:{m[:30]}", f"wall clock {ep.isoformat()}Z at start, {'DST zone' if zone else 'UTC'} process, script {list(script)} threshold={thr} sleep={slp}: {m}",
                               {"script": [list(x) for x in script], "thr": thr, "slp": slp, "maxd": maxd, "epoch": ep.isoformat(), "dst_zone": zone}, size=len(script))
        if p.full("pacing"):
            p.capped = True
            break
    return p


def _work_mgr(task) -> core.Part:
    scripts, settings = task[:2]
    twin = task[2] if len(task) > 2 else 0
    p = core.Part()
    for script in scripts:
        for thr, slp, maxd in settings:
            e = pacing_errors(script, thr, slp, maxd, twin=twin)
            p.add("executions")
            p.add("nontrivial")
            p.add("attempts", len(script) + 1)
            p.out("paced_ok" if not e else "pacing_violation")
            for m in e:
                p.viol("pacing", f"pacing:{script}:{thr}:{slp}:{maxd}:{m[:30]}", f"script {list(script)} threshold={thr} sleep={slp} max_delay={maxd}{f' (after another manager of the process had {twin} failed attempts)' if twin else ''}: {m}",
                       {"script": [list(x) for x in script], "thr": thr, "slp": slp, "maxd": maxd, "twin": twin}, size=len(script))
        if p.full("pacing"):
            p.capped = True
            break
    return p


def main(run: core.Run) -> int:
    q = run.quick
    run.rule = ("strategy object: BFS over snapshots of the real ExponentialBackOff under {failure, reset} to depth 14 (all 2^15-1 sequences mapped onto the visited states), every max_delay 1..3600 evaluated in every state; "
                "manager: every script of attempt outcomes {fail, succeed and lose the connection after 1/3/10 s} up to the bound x 5 (threshold, sleep, max_delay) settings on the virtual-time loop; non-trivial = distinct (script, setting) runs")
    run.merge(par.pmap(_work_backoff, [(14,)], seed=run.seed))
    run.merge(par.pmap(_work_backoff_runs, [(list(range(1, 201))[i::16],) for i in range(16)], seed=run.seed))
    L = 6 if q else 8
    scripts = [s for n in range(1, L + 1) for s in itertools.product(OUTS, repeat=n)]
    # attempts that take time before they fail or succeed (connect time-outs): pacing is measured from the failure
    slow = (("F", None, 0.4), ("F", None, 1.5), ("F", None, 10), ("F", None, 61), ("S", 1, 2.5), ("F", None))
    scripts += [s_ for n in (1, 2, 3, 4) for s_ in itertools.product(slow, repeat=n)]
    # long failure runs to reach the 60 s cap
    scripts += [tuple([("F", None)] * k + [("S", 1)] + [("F", None)] * 2) for k in (30, 64, 65, 70, 100)]  # long outage, reconnect, failures again
    scripts += [tuple([("F", None)] * k) for k in (8, 9, 10)] + [tuple([("F", None)] * 7 + [("S", 1)] + [("F", None)] * 2)]
    batches = [(scripts[i::64], SETTINGS) for i in range(64)]
    run.log(f"{len(scripts)} scripts x {len(SETTINGS)} settings")
    run.merge(par.pmap(_work_mgr, batches, seed=run.seed))
    # another manager of the same process went through 1 / 5 failed attempts (and was closed) before the one under test starts
    tw_scripts = [s_ for n in range(1, 5) for s_ in itertools.product(OUTS, repeat=n)]
    run.log(f"twin manager history: {len(tw_scripts)} scripts x 2 twin histories x 2 settings")
    run.merge(par.pmap(_work_mgr, [(tw_scripts[i::16], SETTINGS[:2], k) for i in range(16) for k in (1, 5)], seed=run.seed))
    eps = calendar_epochs()
    cal_scripts = [s_ for n in (2, 3) for s_ in itertools.product((("S", 1), ("S", 3), ("S", 10), ("F", None)), repeat=n) if sum(1 for o in s_ if o[0] == "S") >= 2]
    cal_scripts += [(("S", 9), ("S", 1), ("S", 1)), (("S", 10), ("S", 2)), (("S", 12), ("S", 1))]
    run.log(f"calendar positions: {len(eps)} wall-clock epochs x 2 process zones x {len(cal_scripts)} scripts x 2 settings")
    run.merge(par.pmap(_work_mgr_calendar, [(eps[i::32], cal_scripts) for i in range(32)], seed=run.seed))
    tot = run.total
    tot.sample({"backoff_sequence": "ffrfff", "expected_delay": "min(4, max_delay) for every max_delay in 1..3600"})
    tot.sample({"script": [["F", None], ["F", None], ["S", 1], ["S", 1]], "setting": {"threshold": 5, "sleep": 5, "max_delay": 60},
                "expected": "attempt 2 at +1 s, attempt 3 at +2 s, attempt 4 right after the first loss, attempt 5 >= 5 s after the second loss"})
    run.bounds = {"backoff_depth": 14, "backoff_run_lengths": "f^k, f^k r, f^k r f^j, f^k r f^5 r f^j for k = 1..200", "max_delay": "1..3600 (complete)", "manager_script_length": L, "slow_attempts": "all scripts of <= 4 attempts over failures after 0/0.4/1.5/10/61 s and a success after 2.5 s", "settings": [list(s) for s in SETTINGS],
                  "twin_manager": f"{len(tw_scripts)} scripts (<= 4 attempts) run after another ConnectionManager of the process had 1 / 5 failed attempts with settings of its own",
                  "calendar": f"{len(eps)} wall-clock start readings (11 s before every hour of the EU switch days, selected hours of US switch days, leap day, new year, 2038) x process zone UTC / CET-CEST x {len(cal_scripts)} loss scripts"}
    run.assumptions = ["han.meter_connection.datetime is substituted by a shim reading the virtual clock (if that name disappears, loss-timing clauses are skipped)",
                       "scheduling slack: 1e-6 virtual seconds"]
    ex = tot.c.get("executions", 0) + tot.c.get("sequences", 0)
    return run.finish(states=tot.c.get("backoff_states", 0), transitions=tot.c.get("transitions", 0) + tot.c.get("attempts", 0), traces=ex,
                      evaluations=ex + tot.c.get("evaluations", 0), distinct_nontrivial=tot.c.get("nontrivial", 0))
