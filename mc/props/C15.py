"""C15 - AutoDecoder returns a dictionary or None for every input, and terminates.
E3 on messages (every truncation, every 1-octet substitution from a structural value set, 2-octet substitutions at
structural positions) + exhaustive ASCII fragments, each in every one of the 8 AutoDecoder states and through both
entry points, under the deterministic call-count budget."""
from __future__ import annotations

import itertools
import json

from mc import autox, budget, core, par
from mc.snap import digest
from mc.props import C12

R = (0x00, 0x01, 0x02, 0x06, 0x09, 0x0A, 0x0C, 0x0F, 0x10, 0x12, 0x16, 0xFF, 0x28, 0x29, 0x7F, 0x80)
ASCII = ("1", ".", "(", ")", "*", "x", "\n")
STATES = (None,) + autox.DECODER_NAMES
_QUICK = True
PRIME_QUICK = (1, 6)
PRIME_THOROUGH = (1, 6, 64)


def primed(state, k, makers):
    """AutoDecoder driven into `state` by k genuine messages of that decoder (k = 1 is the plain state)."""
    a = autox.make_decoder(state, makers)
    if state is not None:
        for _ in range(k - 1):
            a.decode_message_payload(makers[state])
    return a


def run_one(a, payload: bytes, entry: str):
    from han import common

    lim = budget.budget_for(len(payload))
    if entry == "payload":
        return budget.run_budget(lambda: a.decode_message_payload(payload), lim)
    return budget.run_budget(lambda: a.decode_message(common.DlmsMessage(payload)), lim)


def verdict(k, v, calls, n):
    if k == "budget":
        return f"did not finish within the call budget {budget.budget_for(n)} for {n} input bytes"
    if k == "exc":
        return f"raised {type(v).__name__}: {str(v)[:80]}"
    if not (v is None or isinstance(v, dict)):
        return f"returned {type(v).__name__}"
    return None


def check(state, payload: bytes, entry: str) -> list[str]:
    gen, ev, makers = C12.pool()
    a = autox.make_decoder(state, makers)
    k, v, c = run_one(a, payload, entry)
    m = verdict(k, v, c, len(payload))
    return [f"AutoDecoder in state {state}, {entry} entry, input {payload.hex()[:80]}{'...' if len(payload) > 40 else ''}: {m}"] if m else []


def replay(case: dict) -> list[str]:
    return check(case["state"], bytes.fromhex(case["input"]), case["entry"])


def mutations(msg: bytes, two: bool):
    yield from (msg[:i] for i in range(len(msg)))
    for i in range(len(msg)):
        b = msg[i]
        for r in dict.fromkeys(R + ((b + 1) & 255, (b - 1) & 255, b ^ 1)):
            if r != b:
                yield msg[:i] + bytes([r]) + msg[i + 1:]
    if two:
        # structural positions: tag octets, lengths, OBIS octets, date-time octets ~ the first 40 octets and every 09/0a/02/06 tag
        pos = [i for i in range(len(msg)) if i < 24 or msg[i] in (0x01, 0x02, 0x06, 0x09, 0x0A, 0x0C, 0x12, 0x10, 0x16)][:60]
        for i, j in itertools.combinations(pos, 2):
            for r1 in (0x00, 0x02, 0x09, 0xFF):
                for r2 in (0x00, 0x01, 0x0C, 0xFF):
                    if r1 != msg[i] and r2 != msg[j]:
                        m = bytearray(msg)
                        m[i], m[j] = r1, r2
                        yield bytes(m)


def _drive(p, inputs, label, primes=(1,)):
    gen, ev, makers = C12.pool()
    decs = {}
    ref_dg = {}
    for st0 in STATES:
        for kp in (primes if st0 is not None else (1,)):
            try:
                decs[(st0, kp)] = primed(st0, kp, makers)
                ref_dg[(st0, kp)] = digest(decs[(st0, kp)])
            except Exception:  # noqa: BLE001  (state not reachable on a broken tree: C12 reports that)
                p.add("unreachable_states")
    for n_in, inp in enumerate(inputs):
        for key in list(decs):
            st, kp = key
            if kp > 1 and n_in % 3:
                continue  # the deeper histories get every third input
            for entry in (("payload", "message") if n_in % 4 == 0 else ("payload",)):
                a = decs[key]
                par.beat(json.dumps({"state": st, "input": inp.hex(), "entry": entry}) if len(inp) <= 400 else f"state {st} {entry} input {inp[:200].hex()}.. ({len(inp)} B)")
                k, v, c = run_one(a, inp, entry)
                if a.previous_success_decoder != st or digest(a) != ref_dg[key]:
                    # the input changed the decoder (its complete snapshot differs from the primed one): build the
                    # history again; an unchanged snapshot has the same future (the assumption behind C12's fixpoint)
                    decs[key] = primed(st, kp, makers)
                p.add("executions")
                if c > p.mx.get("max_calls", 0):
                    p.mx["max_calls"] = c
                if 100 * c > p.mx.get("max_budget_percent", 0) * budget.budget_for(len(inp)):
                    p.mx["max_budget_percent"] = 100 * c // budget.budget_for(len(inp)) + 1
                m = verdict(k, v, c, len(inp))
                p.out("dict" if isinstance(v, dict) and k == "ok" else ("None" if k == "ok" else (k if k == "budget" else "raises:" + type(v).__name__)))
                if m:
                    kind = "nontermination" if k == "budget" else "raises"
                    p.viol(kind, f"{kind}:{st}x{kp}:{entry}:{inp.hex()[:120]}", f"{label}: AutoDecoder state {st} (after {kp} genuine message(s)), {entry} entry, input {inp.hex()[:60]}{'..' if len(inp) > 30 else ''} ({len(inp)} B): {m}",
                           {"state": st, "input": inp.hex(), "entry": entry}, size=len(inp))
        if p.full("raises") or p.full("nontermination"):
            p.capped = True
            break


def _work_msg(task) -> core.Part:
    key, sl, nsl, two, primes = task
    p = core.Part()
    gen, ev, makers = C12.pool()
    msg = gen[key][0]
    inputs = list(dict.fromkeys(mutations(msg, two)))[sl::nsl]
    p.add("nontrivial", len(inputs))
    _drive(p, inputs, f"mutation of {key}", primes)
    return p


def _work_ascii(task) -> core.Part:
    first, N, via_auto = task
    from han import dlde

    p = core.Part()
    inputs = []
    for L in range(1, N + 1):
        for tail in itertools.product(ASCII, repeat=L - 1):
            inputs.append((first + "".join(tail)).encode())
    if via_auto:
        p.add("nontrivial", len(inputs))
        _drive(p, inputs, "ASCII fragment")
        return p
    for inp in inputs:
        k, v, c = budget.run_budget(lambda: dlde.parse_p1_readout_content(inp), budget.budget_for(len(inp)))
        p.add("executions")
        p.add("nontrivial")
        if k == "budget" or (k == "exc" and not isinstance(v, ValueError)):
            m = "did not terminate within the call budget" if k == "budget" else f"raised {type(v).__name__}"
            kind = "nontermination" if k == "budget" else "raises"
            p.viol(kind, f"{kind}:parse:{inp.hex()}", f"parse_p1_readout_content({inp!r}) {m}", {"state": None, "input": inp.hex(), "entry": "payload"}, size=len(inp))
            if p.full(kind):
                break
    return p


def _work_clocks(task) -> core.Part:
    """Well-formed messages whose clocks sit at the ends of the representable range (year 1 / 9999, deviations up to
    +-720) in every date-time position: arithmetic on the decoded clock must not escape as an exception."""
    position, = task
    from mc.props import C10

    p = core.Part()
    inputs = []
    for y, mo, d in ((1, 1, 1), (1, 1, 2), (9999, 12, 31), (9999, 12, 30), (2024, 2, 29)):
        for (h, mi, sec) in (((0, 0, 0), (0, 35, 30), (23, 24, 30), (23, 59, 59)) if _QUICK else ((0, 0, 0), (0, 35, 30), (11, 59, 59), (12, 0, 0), (23, 24, 30), (23, 59, 59))):
            for dev in (None, -720, -60, -1, 0, 1, 60, 720):
                for hund in ((0xFF,) if _QUICK else (0xFF, 0, 99)):
                    f = (y, mo, d, h, mi, sec, hund, dev, 0, 0xFF)
                    for _, _, msg in C10.messages_at(position, f):
                        inputs.append(msg)
    inputs = list(dict.fromkeys(inputs))
    p.add("nontrivial", len(inputs))
    _drive(p, inputs, f"extreme clock at {position}")
    return p


def _work_words(task) -> core.Part:
    """'Magic' words harvested from the source under test, alone and inside P1-looking text, in every decoder state."""
    lo, step = task
    from mc import cosemx

    p = core.Part()
    inputs = []
    for w in cosemx.code_words(24)[lo::step * (4 if _QUICK else 1)]:
        for form in (w, "1-0:1.8.0(" + w + ")\r\n", w + "(1)\r\n", "1-0:1.8.0(1*" + w + ")\r\n", "0-0:1.0.0(" + w + ")\r\n"):
            inputs.append(form.encode("ascii", "replace"))
    p.add("nontrivial", len(inputs))
    _drive(p, inputs, "source word")
    return p


P_TOKENS = ("1-0:1.7.0", "(1)", "(0001.320*kW)", "(", ")", "*", "x", "\r\n")


def _work_ptokens(task) -> core.Part:
    """Every sequence of up to N P1 syntax tokens (address, complete values, single parentheses, '*', garbage, line end):
    parse_p1_readout_content directly under the call budget, and the sequences of up to N-1 tokens through AutoDecoder in
    every state."""
    first, N = task
    from han import dlde

    p = core.Part()
    seqs = []
    for L in range(1, N + 1):
        for tail in itertools.product(P_TOKENS, repeat=L - 1):
            seqs.append((first,) + tail)
    auto_inputs = []
    for w in seqs:
        inp = "".join(w).encode()
        par.beat(json.dumps({"state": None, "input": inp.hex(), "entry": "payload"}))
        k, v, c = budget.run_budget(lambda: dlde.parse_p1_readout_content(inp), budget.budget_for(len(inp)))
        p.add("executions")
        p.add("nontrivial")
        if k == "budget" or (k == "exc" and not isinstance(v, ValueError)):
            m = "did not terminate within the call budget" if k == "budget" else f"raised {type(v).__name__}"
            kind = "nontermination" if k == "budget" else "raises"
            p.viol(kind, f"{kind}:parse:{inp.hex()}", f"parse_p1_readout_content({inp!r}) {m}", {"state": None, "input": inp.hex(), "entry": "payload"}, size=len(inp))
            if p.full(kind):
                return p
        if len(w) < N:
            auto_inputs.append(inp)
    _drive(p, auto_inputs, "P1 token sequence")
    return p


NUMBER_TEXTS = ["0", "1", "-1", "+1", "00000001.000", "1.", ".5", "1.5e3", "1E9", "1e99", "1E308", "1E309", "1E999", "1E4300", "1E9999", "1E99999", "1E999999", "1E9999999",
                "1E99999999", "1E999999999", "1E-9", "1E-999999999", "9" * 400, "9" * 4301, "9" * 20000, "0." + "0" * 400 + "1", "1" + "0" * 4400 + ".5", "1_000", "1,5", "1.2.3", "--1", "1e", "e1", "inf", "-inf",
                "nan", "NaN", "sNaN", "Infinity", "0x1F", "0b1", "0o7", " 1", "1 ", "1e+", "1/3", "True", "None", ""]
NUMBER_ADDR = ["1-0:1.7.0", "1-0:1.8.0", "1-0:2.8.0", "1-0:3.7.0", "1-0:32.7.0", "1-0:31.7.0", "0-0:1.0.0", "0-0:96.1.0", "9-9:9.9.9"]
NUMBER_UNITS = [None, "", "W", "Wh", "kW", "kWh", "kvar", "kVAr", "kvarh", "kVArh", "V", "A", "w", "wh", "KW", "KWH", "kw", "kwh", "var", "varh", "VA", "m3", "Hz", "mA", "MW", "MWh", "GJ"]


def _work_numbers(task) -> core.Part:
    """Texts that number conversions treat specially (exponents of every magnitude, digit strings around the integer
    conversion limit, signs, separators, special values) as the value of every known P1 address with every unit spelling:
    a conversion that is cheap to request and astronomically expensive to carry out must not be reachable."""
    lo, step = task
    p = core.Part()
    inputs = []
    for num in NUMBER_TEXTS[lo::step]:
        for addr in NUMBER_ADDR:
            for u in NUMBER_UNITS:
                inputs.append(f"{addr}({num}{'' if u is None else '*' + u})\r\n".encode())
        inputs.append(f"1-0:1.7.0(1*kW)({num}*kW)\r\n1-0:2.7.0({num})\r\n".encode())
    p.add("nontrivial", len(inputs))
    _drive(p, inputs, "number text")
    return p


def main(run: core.Run) -> int:
    global _QUICK
    q = _QUICK = run.quick
    run.rule = ("inputs: every truncation and every 1-octet substitution (16 structural values, b+-1, b^1) of each genuine message of the pool" + ("" if q else ", 2-octet substitutions at structural positions") +
                "; every ASCII string <=N over {1 . ( ) * x LF}; each in each of the 8 AutoDecoder states (reached through the public API) and through both entry points, under the call budget 400*n+40000; "
                "non-trivial = distinct inputs")
    gen, ev, makers = C12.pool()
    keys = sorted(gen)
    pick = None
    if True:
        pick = ["fix.aidon.no_list_1.frame", "fix.aidon.no_list_2.body", "fix.kaifa.no_list_2.frame", "fix.kaifa.se_list.body", "fix.kamstrup.no_list_1_single_phase_real_sample.frame",
                "fix.kamstrup.no_list_2_single_phase.body", "ref.kaifa.list1_1320W.body", "ref.kaifa.9.body"]
    if not q:
        pick = pick + keys[::3]  # every third message of the pool in addition to the quick selection
    pick = sorted(set(pick))
    tasks = []
    for k in pick:
        nsl = max(1, len(gen[k][0]) // 24)
        tasks += [(k, i, nsl, False, PRIME_QUICK if q else PRIME_THOROUGH) for i in range(nsl)]
    if not q:
        for k in [x for x in keys if x.startswith("fix.")][::7]:
            tasks += [(k, i, 32, True, (1,)) for i in range(32)]
    run.log(f"{len(pick)} messages, {len(tasks)} partitions")
    run.merge(par.pmap(_work_msg, tasks, seed=run.seed))
    NA, ND = (4, 6) if q else (5, 7)
    at = [(c, NA, True) for c in ASCII] + [(c, ND, False) for c in ASCII]
    run.merge(par.pmap(_work_ascii, at, seed=run.seed))
    run.merge(par.pmap(_work_words, [(i, 16) for i in range(16)], seed=run.seed))
    NP = 5 if q else 6
    run.log(f"P1 token sequences <= {NP} over {len(P_TOKENS)} tokens")
    run.merge(par.pmap(_work_ptokens, [(t, NP) for t in P_TOKENS], seed=run.seed))
    run.log(f"number texts: {len(NUMBER_TEXTS)} x {len(NUMBER_ADDR)} addresses x {len(NUMBER_UNITS)} unit spellings")
    run.merge(par.pmap(_work_numbers, [(i, 16) for i in range(16)], seed=run.seed))
    from mc.props import C10
    run.merge(par.pmap(_work_clocks, [(pos,) for pos in C10.POSITIONS], seed=run.seed))
    tot = run.total
    tot.sample({"message": "ref.kaifa.list1_1320W.body", "input": "02010600000528", "states": 8, "entries": 2, "budget_calls": budget.budget_for(7)})
    tot.sample({"ascii": "1.0(1)x", "expected": "dict or None within 42 800 calls"})
    run.bounds = {"messages": len(pick), "histories": "each remembered decoder reached by k genuine messages, k in " + str(list(PRIME_QUICK if q else PRIME_THOROUGH)), "extreme_clocks": "well-formed messages with clocks at year 1 / 9999 x 6 times x 8 deviations x 3 hundredths in all 6 date-time positions", "ascii_via_autodecoder": f"<= {NA}", "ascii_via_parse_p1_readout_content": f"<= {ND}", "max_calls_observed": tot.mx.get("max_calls", 0),
                  "p1_token_sequences": f"<= {NP} tokens over {list(P_TOKENS)} (parse directly; <= {NP - 1} tokens through AutoDecoder in every state)",
                  "number_texts": f"{len(NUMBER_TEXTS)} texts (exponents up to 1E999999999, 400..20000-digit strings, signs, separators, inf/nan) x {len(NUMBER_ADDR)} P1 addresses x {len(NUMBER_UNITS)} unit spellings",
                  "real_time_limit_per_evaluation_s": par.CASE_LIMIT}
    run.assumptions = ["time/memory bound is decided through the deterministic call-count budget (every allocation in these code paths happens inside a counted call) with an address-space limit as backstop",
                       "bytes outside the substitution alphabet are reached only through b+-1 / b^1"]
    ex = tot.c.get("executions", 0)
    return run.finish(states=8, transitions=ex, traces=ex, evaluations=ex, distinct_nontrivial=tot.c.get("nontrivial", 0))
