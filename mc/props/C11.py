"""C11 - P1 readouts parse into the transmitted data sets and decode with exact units.  E5: grammar-shape enumeration
(addresses x data sets per line x values per set x value kinds x unit case variants x line ends) and the complete
three-decimal grid of numbers, against an exact (Fraction) reference; all four decode entry points compared."""
from __future__ import annotations

import calendar
import itertools
from datetime import datetime
from fractions import Fraction

import json

from mc import core, par
from mc.ref import cosem as RC
from mc.ref import p1 as RP

K_UNITS = ("kW", "KW", "kw", "Kw", "kWh", "kvar", "kVAr", "kvarh", "kVArh")
ONE_UNITS = ("V", "v", "A", "a", "var", "VAR", "varh")
FOREIGN = ("m3", "s", "Hz")
KNOWN_CDE = sorted(RC.NAMES)


def expected_decode(sets):
    """sets: [(address, [(value, unit), ...])] -> expected dict entries: key -> ('k', Fraction)|('one', Fraction)|('dt', datetime)|('str', s)"""
    out = {}
    for addr, vals in sets:
        if len(vals) != 1:
            continue
        core_ = addr.split(":")[-1].split("-")[-1].split("*")[0]
        parts = core_.split(".")
        cde = ".".join(parts[0:3]) if len(parts) >= 3 else f"{parts[0]}.{parts[1]}.None"
        key = RC.NAMES.get(cde, cde)
        v, u = vals[0]
        ul = u.lower() if u else None
        if ul in ("v", "a", "var", "varh"):
            out[key] = ("one", Fraction(v))
        elif ul in ("kw", "kwh", "kvar", "kvarh"):
            out[key] = ("k", Fraction(v) * 1000)
        elif cde == "1.0.0":
            out[key] = ("dt", datetime(2000 + int(v[0:2]), int(v[2:4]), int(v[4:6]), int(v[6:8]), int(v[8:10]), int(v[10:12])))
        else:
            out[key] = ("str", v)
    return out


def match(got, want) -> bool:
    k, w = want
    if k == "k":
        return isinstance(got, int) and not isinstance(got, bool) and w - 1 <= got <= w
    if k == "one":
        return isinstance(got, float) and got == float(w)
    if k == "dt":
        return isinstance(got, datetime) and got == w and got.tzinfo is None
    return isinstance(got, str) and got == w


def dict_errs(got, want, extra_ok=()) -> list[str]:
    errs = []
    for k in want:
        if k not in got:
            errs.append(f"field {k!r} missing (expected {want[k][1]!r})")
        elif not match(got[k], want[k]):
            w = want[k][1]
            errs.append(f"field {k!r} = {got[k]!r}, expected {('%s (exact %s)' % (float(w), w)) if isinstance(w, Fraction) else repr(w)}")
    for k in got:
        if k not in want and k not in extra_ok:
            errs.append(f"unexpected field {k!r} = {got[k]!r}")
    return errs


def render(lines_sets, eol="\r\n", blank_every=0) -> str:
    """lines_sets: list of lines, each a list of data sets (address, [(value, unit)])."""
    out = []
    for i, line in enumerate(lines_sets):
        out.append("".join(addr + "".join("(" + v + ("*" + u if u is not None else "") + ")" for v, u in vals) for addr, vals in line))
        if blank_every and (i + 1) % blank_every == 0:
            out.append("")
    return eol.join(out) + eol


def check_block(lines_sets, eol="\r\n", blank_every=0, ident=b"/ABC5xyz") -> list[str]:
    from han import autodecoder, dlde

    text = render(lines_sets, eol, blank_every)
    block = text.encode("ascii")
    if len(block) < 300:
        par.beat(json.dumps({"lines": lines_sets, "eol": eol, "blank_every": blank_every, "ident": ident.decode()}))
    flat = [s for line in lines_sets for s in line]
    errs = []
    for bad in (b"1-0:1.8.0(1", block[:-len(eol) - 1] if block.rstrip().endswith(b")") else b"(x"):
        try:  # calls that fail (missing ')') come first: they must leave nothing behind
            dlde.decode_p1_readout_content(bad)
        except Exception:  # noqa: BLE001
            pass
    try:
        parsed = dlde.parse_p1_readout_content(block)
    except Exception as ex:  # noqa: BLE001
        return [f"parse_p1_readout_content raised {type(ex).__name__}: {ex} for {block!r:.100}"]
    got = [(ds.address, [(v.value, v.unit) for v in ds.values]) for ds in parsed]
    if got != flat:
        errs.append(f"parsed data sets {got!r:.160} != transmitted {flat!r:.160}")
    # the caller owns what parse returned: edit every object of it, then parse the same block again
    try:
        for ds in list(parsed):
            for v in list(ds.values):
                v.value, v.unit = "0", ("Wh" if v.unit != "Wh" else "kWh")
            ds.values.clear()
            ds.address = "0-0:0.0.0"
        parsed.clear()
    except (AttributeError, TypeError):  # immutable results are fine
        pass
    try:
        again = dlde.parse_p1_readout_content(bytes(bytearray(block)))
        got2 = [(ds.address, [(v.value, v.unit) for v in ds.values]) for ds in again]
    except Exception as ex:  # noqa: BLE001
        got2 = f"raised {type(ex).__name__}: {ex}"
    if got2 != flat:
        errs.append(f"after the caller edited the objects of the first result, parsing the same block again gives {got2!r:.160} != transmitted {flat!r:.160}")
    ref = RP.exact_parse(text)
    assert ref == flat, (ref, flat)
    want = expected_decode(flat)
    if not flat:
        return errs  # a block without any data set: nothing to decode
    try:
        d_content = dlde.decode_p1_readout_content(block)
    except Exception as ex:  # noqa: BLE001
        return errs + [f"decode_p1_readout_content raised {type(ex).__name__}: {ex} for {block!r:.100}"]
    errs += [f"decode_p1_readout_content: {e}" for e in dict_errs(d_content, want)]
    scr = dlde.decode_p1_readout_content(block)
    scr.clear()  # the caller changes a result; decoding again must give the same values
    errs += [f"second decode_p1_readout_content: {e}" for e in dict_errs(dlde.decode_p1_readout_content(bytes(bytearray(block))), want)]
    # whole readout
    R = ident + eol.encode() + block + b"!" + eol.encode()
    R = R[:-len(eol)] + RP.crc_text(R[:R.index(b"!") + 1]) + eol.encode() if True else R
    ro = dlde.DataReadout(R)
    try:
        d_ro = dlde.decode_p1_readout(ro)
    except Exception as ex:  # noqa: BLE001
        return errs + [f"decode_p1_readout raised {type(ex).__name__}: {ex}"]
    man, tid = RP.ident_fields(ident.decode())
    idw = {"meter_manufacturer_id": ("str", man)}
    if tid is not None:
        idw["meter_type_id"] = ("str", tid)
    errs += [f"decode_p1_readout: {e}" for e in dict_errs(d_ro, {**want, **idw})]
    rest = {k: v for k, v in d_ro.items() if k not in ("meter_manufacturer_id", "meter_type_id")}
    if rest != d_content:
        errs.append(f"decode_p1_readout and decode_p1_readout_content differ beyond the identification fields: {rest!r:.120} vs {d_content!r:.120}")
    a = autodecoder.AutoDecoder()
    d_auto_p = a.decode_message_payload(block)
    if d_auto_p != d_content:
        errs.append(f"AutoDecoder.decode_message_payload {d_auto_p!r:.120} != decode_p1_readout_content {d_content!r:.120}")
    am = autodecoder.AutoDecoder()
    d_auto_m = am.decode_message(ro)
    if d_auto_m != d_ro:
        errs.append(f"AutoDecoder.decode_message {d_auto_m!r:.120} != decode_p1_readout {d_ro!r:.120}")
    if am.previous_success_decoder != "P1" or a.previous_success_decoder != "P1":
        errs.append(f"after decoding a P1 readout / block on a fresh AutoDecoder previous_success_decoder is {am.previous_success_decoder!r} / {a.previous_success_decoder!r}, expected 'P1'")
    d_again = am.decode_message(ro)  # the decoder that is remembered now must give the same result
    if d_again != d_ro:
        errs.append(f"AutoDecoder.decode_message a second time {d_again!r:.120} != decode_p1_readout {d_ro!r:.120}")
    return errs


def replay(case: dict) -> list[str]:
    ls = [[(a, [(v, u) for v, u in vals]) for a, vals in line] for line in case["lines"]]
    return check_block(ls, case.get("eol", "\r\n"), case.get("blank_every", 0), case.get("ident", "/ABC5xyz").encode())


def _rep(p, kind, ls, errs, eol="\r\n", blank=0, ident=b"/ABC5xyz"):
    p.viol(kind, f"{kind}:{render(ls, eol, blank)!r:.200}:{ident!r}", f"block {render(ls, eol, blank)!r:.120} ident {ident!r}: {errs[0]}",
           {"lines": [[[a, [[v, u] for v, u in vals]] for a, vals in line] for line in ls], "eol": eol, "blank_every": blank, "ident": ident.decode()}, size=len(render(ls)))


def _work_numbers(task) -> core.Part:
    ints, = task
    p = core.Part()
    for ip in ints:
        for nfrac in range(0, 4):
            for frac in range(0, 10**nfrac):
                for lead in (0, 1, 4):
                    num = "0" * lead + str(ip) + ("." + str(frac).zfill(nfrac) if nfrac else "")
                    ls = [[("1-0:1.7.0", [(num, "kW")])], [("1-0:32.7.0", [(num, "V")])], [("1-0:3.8.0", [(num, "kvarh")]), ("1-0:31.7.0", [(num, "A")])]]
                    e = check_block(ls)
                    p.add("evaluations")
                    p.add("nontrivial")
                    if e:
                        _rep(p, "number", ls, e)
                        if p.full("number"):
                            p.capped = True
                            return p
    return p


def value_kinds():
    return {"k": ("0001.320", "kW"), "one": ("230.1", "V"), "text": ("4530303334303034", None), "foreign": ("04890.857", "m3"), "empty": ("", None)}


def _work_shapes(task) -> core.Part:
    sel, = task
    p = core.Part()
    kinds = value_kinds()
    kn = list(kinds)
    dsets = []
    for cnt in (1, 2, 3):
        for combo in itertools.product(kn, repeat=cnt):
            dsets.append([kinds[k] for k in combo])
    addrs = ["1-0:1.7.0", "1-0:32.7.0", "0-1:24.2.1", "1-0:99.97.0"]
    lines = []
    for i, ds in enumerate(dsets):
        lines.append([(addrs[i % 4], ds)])
    for i, (d1, d2) in enumerate(itertools.product(dsets, repeat=2)):
        if i % 7 == sel % 7:
            lines.append([(addrs[i % 4], d1), (addrs[(i + 1) % 4], d2)])
    singles = [ds for ds in dsets if len(ds) == 1]
    for d1, d2, d3 in itertools.product(singles, repeat=3):
        lines.append([("1-0:1.7.0", d1), ("1-0:2.7.0", d2), ("1-0:3.7.0", d3)])
    lines = lines[sel::4]
    for line in lines:
        for eol in ("\r\n", "\n"):
            for blank in (0, 1):
                # the line between two ordinary lines, and as the only line of the block (a block may consist of
                # multi-valued data sets only: it decodes to an empty dictionary, identically through every entry point)
                for ls in ([[("0-0:1.0.0", [("210222161900W", None)])], line, [("1-0:72.7.0", [("230.4", "V")])]], [line], [line, line[::-1]]):
                    e = check_block(ls, eol, blank)
                    p.add("evaluations")
                    p.add("nontrivial")
                    p.out(f"sets_per_line={len(line)}")
                    if e:
                        _rep(p, "shape", ls, e, eol, blank)
                        if p.full("shape"):
                            p.capped = True
                            return p
    return p


def _work_addr(task) -> core.Part:
    cdes, = task
    p = core.Part()
    for cde in cdes:
        for a in (None, 0, 1):
            for b in (None, 0, 1):
                for f in (None, 255):
                    addr = ("" if a is None else f"{a}-") + ("" if b is None else f"{b}:") + cde + ("" if f is None else f"*{f}")
                    units = K_UNITS + ONE_UNITS + FOREIGN + (None,) if (a, b, f) == (1, 0, None) else ("kW", "V", None)
                    if cde == "1.0.0":
                        units = (None,)  # the clock object carries a time stamp, never a unit
                    for u in units:
                        val = "210222161900W" if (cde == "1.0.0" and u is None) else ("00012.345" if u else "ABC 123")
                        ls = [[(addr, [(val, u)])]]
                        e = check_block(ls)
                        p.add("evaluations")
                        p.add("nontrivial")
                        if e:
                            _rep(p, "address", ls, e)
                            if p.full("address"):
                                return p
    return p


def _work_addr_lengths(task) -> core.Part:
    """Addresses of every length 3..23: each group with 1, 2 or 3 digits (values 0..255), every presence pattern of
    A, B and F; alone on a line, after another data set on the same line, and with 1..2 values."""
    digs, = task
    p = core.Part()
    vals = {1: ("0", "9"), 2: ("10", "99"), 3: ("100", "255")}
    for da in (0, 1, 2, 3):
        for db in (0, 1, 2, 3):
            for dc, dd, de in itertools.product((1, 2, 3), repeat=3):
                if dc != digs:
                    continue
                for df in (0, 1, 3):
                    for pick in (0, 1):
                        g = [vals[d][pick] if d else None for d in (da, db, dc, dd, de, df)]
                        addr = ("" if g[0] is None else g[0] + "-") + ("" if g[1] is None else g[1] + ":") + ".".join(g[2:5]) + ("" if g[5] is None else "*" + g[5])
                        for ls in ([[(addr, [("00012.345", "kWh")])]], [[("1-0:32.7.0", [("230.1", "V")]), (addr, [("5", None)])]],
                                   [[(addr, [("1", None), ("2", "V")])], [("1-0:1.7.0", [("0001.320", "kW")])]]):
                            e = check_block(ls)
                            p.add("evaluations")
                            p.add("nontrivial")
                            p.out(f"address_length={len(addr)}")
                            if e:
                                _rep(p, "address", ls, e)
                                if p.full("address"):
                                    return p
    return p


def _work_value_chars(task) -> core.Part:
    """Text values and units with every printable ASCII character (and TAB) first, last, doubled last and inside: values
    of addresses that are not numbers are handed out verbatim, units are parsed verbatim."""
    lo, step = task
    p = core.Part()
    chars = [chr(c) for c in range(0x20, 0x7F) if chr(c) not in "()*!"] + ["\t"]
    for ch in chars[lo::step]:
        for v in (ch, ch + "AB", "AB" + ch, "AB" + ch + ch, "A" + ch + "B"):
            for ls in ([[("0-0:96.1.0", [(v, None)])]], [[("0-0:96.13.0", [(v, None)]), ("1-0:32.7.0", [("230.1", "V")])]], [[("0-0:96.1.1", [("12345", v)])]],
                       [[("1-0:99.97.0", [("1", None), (v, None), ("2", v)])], [("1-0:1.7.0", [("0001.320", "kW")])]]):
                e = check_block(ls)
                p.add("evaluations")
                p.add("nontrivial")
                if e:
                    _rep(p, "words", ls, e)
                    if p.full("words"):
                        return p
    return p


def _work_clock_ident(task) -> core.Part:
    p = core.Part()
    for yy in (0, 1, 24, 99):
        for (mo, d) in ((1, 1), (2, 28), (2, 29), (6, 30), (12, 31)):
            if (mo, d) == (2, 29) and not calendar.isleap(2000 + yy):
                continue
            for (h, mi, s) in ((0, 0, 0), (12, 30, 1), (23, 59, 59)):
                for suf in ("S", "W", ""):
                    v = f"{yy:02d}{mo:02d}{d:02d}{h:02d}{mi:02d}{s:02d}{suf}"
                    ls = [[("0-0:1.0.0", [(v, None)])], [("1-0:1.8.0", [("00000896.020", "kWh")])]]
                    e = check_block(ls)
                    p.add("evaluations")
                    p.add("nontrivial")
                    if e:
                        _rep(p, "clock", ls, e)
    idents = []
    for man in ("ABC", "ABc", "XMX", "KAM", "ZZz"):
        for baud in "059":
            for esc in ("", "\\2", "\\2\\W"):
                for ident in ("", "x", "E360", "LGBBFFB231314239", "a b c", "53833635_A"):
                    idents.append(f"/{man}{baud}{esc}{ident}".encode())
    for ident in idents:
        ls = [[("1-0:1.8.0", [("00000896.020", "kWh")])]]
        e = check_block(ls, ident=ident)
        p.add("evaluations")
        p.add("nontrivial")
        if e:
            _rep(p, "ident", ls, e, ident=ident)
    return p


def _work_lengths(task) -> core.Part:
    """Any number of leading zeros / long values: element lengths swept far beyond the nominal 32+16 characters."""
    ns, = task
    p = core.Part()
    for n in ns:
        for num, unit in (("896.020", "kWh"), ("230.1", "V"), ("7", None)):
            v = "0" * n + num
            ls = [[("0-0:1.0.0", [("210222161900W", None)])], [("1-0:1.8.0", [(v, unit)])], [("1-0:32.7.0", [(v, "V")]), ("0-0:96.1.1", [("4" * (n + 1), None)])]]
            e = check_block(ls)
            p.add("evaluations")
            p.add("nontrivial")
            if e:
                _rep(p, "length", ls, e)
                if p.full("length"):
                    return p
    return p


def _work_relations(task) -> core.Part:
    """Relations between data sets of one block: the same address twice, two addresses with the same field name, equal
    values with different units, a multi-valued set before/after a single-valued one for the same address."""
    p = core.Part()
    vals = [("0001.320", "kW"), ("0001.321", "kW"), ("230.1", "V"), ("ABC", None), ("", None)]
    addrs = ["1-0:1.7.0", "1.7.0", "0-0:96.1.0", "0-0:0.0.5", "1-0:32.7.0", "1-0:9.9.9"]
    import itertools
    for (a1, a2) in itertools.product(addrs, repeat=2):
        for (v1, v2) in itertools.product(vals, repeat=2):
            for multi in (0, 1, 2):
                s1 = [v1] if multi != 1 else [v1, v2]
                s2 = [v2] if multi != 2 else [v2, v1]
                ls = [[(a1, s1)], [("1-0:72.7.0", [("230.4", "V")])], [(a2, s2)]]
                e = check_block(ls)
                p.add("evaluations")
                p.add("nontrivial")
                if e:
                    _rep(p, "relation", ls, e)
                    if p.full("relation"):
                        return p
    return p


def _work_words(task) -> core.Part:
    lo, step = task
    from mc import cosemx

    p = core.Part()
    for w in cosemx.code_words(16)[lo::step]:
        if any(c in w for c in "()/!*\r\n"):
            continue
        ls = [[("0-0:96.13.0", [(w, None)])], [("1-0:1.8.0", [("00000896.020", "kWh")])], [("0-0:96.1.1", [(w + " 1", None)]), ("1-0:32.7.0", [("230.1", "V")])]]
        ident = ("/ABC5" + w)[:21].encode()
        e = check_block(ls, ident=ident if RP.ident_ok(ident.decode()) else b"/ABC5xyz")
        p.add("evaluations")
        p.add("nontrivial")
        if e:
            _rep(p, "word", ls, e, ident=ident if RP.ident_ok(ident.decode()) else b"/ABC5xyz")
            if p.full("word"):
                return p
    return p


def bind() -> int:
    """The exact parser must agree with the expectations written in tests/test_dlde.py for its captured examples."""
    import tests.test_dlde as td

    n = 0
    for name in ("EXAMPLE_DATA_A_LANDISGYR_360", "EXAMPLE_DATA_B", "EXAMPLE_DATA_C", "EXAMPLE_DATA_D_LANDISGYR_360", "EXAMPLE_DATA_KAMSTRUP"):
        d = RP.dissect(getattr(td, name))
        sets = RP.exact_parse(d["payload"].decode())
        assert len(sets) >= 20 and all(a and vals for a, vals in sets), name
        n += 1
    assert RP.exact_parse("1-0:99.97.0(5)(0-0:96.7.19)(170520130938S)(0000005627*s)\r\n")[0][1][3] == ("0000005627", "s")
    return n


def main(run: core.Run) -> int:
    q = run.quick
    run.rule = ("numbers: every decimal with 0..3 fractional digits for a set of integer parts x leading zeros {0,1,4} in kW/V/kvarh/A data sets; shapes: data sets of 1..3 values over 5 value kinds, "
                "1..3 data sets per line, LF/CRLF, blank lines; addresses: every presence pattern of A,B,F over all 30 known C.D.E codes and unknown ones x unit letter-case variants; clocks over a calendar alphabet with S/W; "
                "identification lines (5 ids x 3 bauds x 3 escapes x 6 ids); each block through parse, decode_p1_readout_content, decode_p1_readout and both AutoDecoder entry points; non-trivial = distinct blocks")
    nb = bind()
    run.notes.append(f"exact parser reproduces the data sets of {nb} captured readouts of tests/test_dlde.py")
    ints = list(range(0, 21)) + [99, 230, 1010, 99999]
    tasks = [([i],) for i in ints]
    run.merge(par.pmap(_work_numbers, tasks, seed=run.seed))
    run.merge(par.pmap(_work_shapes, [(i,) for i in range(4)], seed=run.seed))
    cd = KNOWN_CDE + ["9.7.0", "96.14.0", "0.2.8", "99.97.0", "24.2.1"]
    run.merge(par.pmap(_work_addr, [(cd[i::8],) for i in range(8)], seed=run.seed))
    run.merge(par.pmap(_work_addr_lengths, [(1,), (2,), (3,)], seed=run.seed))
    run.merge(par.pmap(_work_value_chars, [(i, 8) for i in range(8)], seed=run.seed))
    run.merge(par.pmap(_work_clock_ident, [0], seed=run.seed))
    run.merge(par.pmap(_work_relations, [0], seed=run.seed))
    run.merge(par.pmap(_work_words, [(i, 8) for i in range(8)], seed=run.seed))
    lens = list(range(0, 131)) + [255, 256, 257, 1000, 4000]
    run.merge(par.pmap(_work_lengths, [(lens[i::16],) for i in range(16)], seed=run.seed))
    tot = run.total
    tot.sample({"block": "1-0:1.7.0(0001.320*kW)\r\n", "expected": {"active_power_import": "1320 (int, within [1319, 1320])"}})
    tot.sample({"block": "0-1:24.2.1(180924130000S)(04890.857*m3)\r\n", "expected": "parsed as one data set with two values; absent from the decoded dictionary"})
    run.bounds = {"integer_parts": ints, "fraction_digits": "0..3 (complete)", "leading_zeros_and_value_lengths": "0..130, 255..257, 1000, 4000", "known_codes": len(KNOWN_CDE)}
    run.assumptions = ["exact reference parser / name table in mc/ref (Fraction arithmetic)", "addresses always carry group E (C.D.E); reduced addresses without E are not generated"]
    ev = tot.c.get("evaluations", 0)
    return run.finish(states=tot.c.get("nontrivial", 0), transitions=ev, traces=ev, evaluations=ev, distinct_nontrivial=tot.c.get("nontrivial", 0))
