"""C05 - P1: every readout on a clean stream is delivered once, however it is chunked.
Zero-deviation streams (sequences of well-formed readouts, optional leading readout tail) x enumerated chunkings,
including long streams (several times the reader's 8191-byte guard) under every fixed chunk size x every phase."""
from __future__ import annotations

import itertools

from mc import core, par
from mc import hdlcx as X
from mc import p1x as P
from mc.ref import p1 as RP
from mc.snap import digest


def shapes():
    """name -> readout; lengths from 27 bytes to ~6 KiB; IEC-legal identification lines."""
    big_lines = [b"1-0:%d.8.0(%08d.%03d*kWh)" % (i % 90 + 1, i * 7919 % 10**8, i % 1000) for i in range(220)]
    mid_lines = big_lines[:30]
    return {
        "r27": RP.build_readout(b"/ABC5xyz", [b"1.0(1)"], blank_after_ident=False),
        "r45": RP.build_readout(b"/KAM5", [b"1-0:1.7.0(0001.320*kW)"], eol=b"\r\n"),
        "r_nocs": RP.build_readout(b"/LGF5E360", P.LINES[:3], checksum=None),
        "r_lf": RP.build_readout(b"/XMX5LGBBFFB231314239", P.LINES, eol=b"\n"),
        "r_esc": RP.build_readout(b"/ELL5\\253833635_A", P.LINES),
        "r1k": RP.build_readout(b"/ISk5\\2MT382-1000", mid_lines),
        "r6k": RP.build_readout(b"/LGF5E360", big_lines),
    }


def stream_errors(sent, chunks) -> list[str]:
    got, _ = P.feed(chunks)
    gb = [m.as_bytes for m in got]
    if gb != list(sent):
        # describe the first difference
        i = 0
        while i < min(len(gb), len(sent)) and gb[i] == sent[i]:
            i += 1
        what = (f"readout #{i} differs: got {gb[i][:60]!r}... ({len(gb[i])} B) expected {sent[i][:30]!r}... ({len(sent[i])} B)"
                if i < min(len(gb), len(sent)) else f"first {i} match")
        return [f"returned {len(gb)} readouts, sent {len(sent)}; {what}"]
    bad = [i for i, m in enumerate(got) if m.is_valid is not True]
    if bad:
        return [f"readout #{bad[0]} delivered with is_valid != True"]
    return []


def build(seq, tail_of=None, tail_from=0):
    sh = shapes()
    sent = [sh[k] for k in seq]
    lead = sh[tail_of][tail_from:] if tail_of else b""
    return sent, lead + b"".join(sent)


def mk_chunks(S, ch):
    if ch[0] == "cuts":
        return X.split(S, ch[1])
    if ch[0] == "fixed":
        return X.fixed(S, ch[1], ch[2])
    return X.bytewise(S)


def replay(case: dict) -> list[str]:
    if "raw" in case:
        sent = [bytes.fromhex(x) for x in case["raw"]]
        return stream_errors(sent, mk_chunks(b"".join(sent), case["chunking"]))
    seq = case["seq"]
    if "repeat" in case:
        seq = seq * case["repeat"]
    sent, S = build(seq, case.get("tail_of"), case.get("tail_from", 0))
    return stream_errors(sent, mk_chunks(S, case["chunking"]))


def _chk(p, case, sent, S, ch):
    chunks = mk_chunks(S, ch)
    errs = stream_errors(sent, chunks)
    p.add("executions")
    p.add("events", len(chunks))
    p.out("all_delivered" if not errs else "loss_or_corruption")
    if errs:
        c = dict(case)
        c["chunking"] = list(ch)
        label = f"{'+'.join(case['seq'])}" + (f" x{case['repeat']}" if "repeat" in case else "") + \
                (f" after tail {case['tail_of']}[{case['tail_from']}:]" if case.get("tail_of") else "")
        p.viol("clean_delivery", f"clean_delivery:{label}:{list(ch)}", f"{label} ({len(S)} B) chunking={list(ch)}: {errs[0]}", c, size=len(S))
    return not errs


def _work_short(task) -> core.Part:
    seq, tail_of, tail_from, pairs, cut_lo, cut_hi = task
    p = core.Part()
    case = {"seq": list(seq)}
    if tail_of:
        case.update(tail_of=tail_of, tail_from=tail_from)
    sent, S = build(seq, tail_of, tail_from)
    n = len(S)
    p.add("nontrivial")
    fam = [("cuts", [i]) for i in range(max(cut_lo, 1), min(cut_hi, n))]
    if cut_lo == 0:
        fam = [("cuts", []), ("bytewise",)] + fam
    if pairs and n <= 120:
        fam += [("cuts", [i, j]) for i in range(1, n) for j in range(i + 1, n)]
    for ch in fam:
        _chk(p, case, sent, S, ch)
        if p.full("clean_delivery"):
            p.capped = True
            break
    if cut_lo == 0:
        r = P.new_reader()
        for i in range(n):
            r.read(S[i:i + 1])
            p.d.add(digest(r))
    return p


def _work_tails(task) -> core.Part:
    """Every proper suffix of a readout as leading tail, followed by two readouts; 4 chunkings each."""
    tail_of, follow, lo, hi = task
    p = core.Part()
    sh = shapes()
    for tf in range(lo, min(hi, len(sh[tail_of]))):
        case = {"seq": list(follow), "tail_of": tail_of, "tail_from": tf}
        sent, S = build(follow, tail_of, tf)
        p.add("nontrivial")
        tl = len(sh[tail_of]) - tf
        for ch in (("cuts", []), ("bytewise",), ("cuts", [tl]), ("cuts", [max(tl - 1, 1)]), ("cuts", [tl + 1]), ("fixed", 7, 3)):
            _chk(p, case, sent, S, ch)
        if p.full("clean_delivery"):
            p.capped = True
            break
    return p


def _work_long(task) -> core.Part:
    seq, repeat, ks, tail = task
    p = core.Part()
    case = {"seq": list(seq), "repeat": repeat}
    if tail:
        case.update(tail_of=tail[0], tail_from=tail[1])
    sent, S = build(list(seq) * repeat, *(tail or (None, 0)))
    p.add("nontrivial")
    for k in ks:
        phases = range(0, k) if k <= 96 else sorted(set(list(range(0, 32)) + list(range(k - 32, k)) + list(range(0, k, max(k // 48, 1)))))
        for ph in phases:
            _chk(p, case, sent, S, ("fixed", k, ph))
            if p.full("clean_delivery"):
                p.capped = True
                return p
    return p


def ident_variants():
    """Identification lines over the syntax's corner cases: 0/1/2 escape sequences x id length 0/1/15/16, both line ends."""
    out = []
    for esc in (b"", b"\\2", b"\\2\\W"):
        for idlen in (0, 1, 15, 16):
            ident = b"/ELL5" + esc + b"ABCDEFGH12345678"[:idlen]
            for eol in (b"\r\n", b"\n"):
                out.append(RP.build_readout(ident, [b"1-0:1.7.0(0001.320*kW)"], eol=eol, blank_after_ident=False))
    return out


def _work_idents(task) -> core.Part:
    lo, hi = task
    p = core.Part()
    var = ident_variants()
    sh = shapes()
    for r in var[lo:hi]:
        assert RP.dissect(r)["ident_ok"], r
        sent = [sh["r27"], r, r, sh["r45"]]
        S = b"".join(sent)
        n = len(S)
        p.add("nontrivial")
        fam = [("cuts", []), ("bytewise",)] + [("cuts", [i]) for i in range(1, n)] + [("fixed", k, ph) for k in range(2, 33) for ph in range(k)]
        for ch in fam:
            chunks = mk_chunks(S, ch)
            got, _ = P.feed(chunks)
            p.add("executions")
            p.add("events", len(chunks))
            ok = [m.as_bytes for m in got] == sent and all(m.is_valid is True for m in got)
            p.out("all_delivered" if ok else "loss_or_corruption")
            if not ok:
                p.viol("clean_delivery", f"clean_delivery:ident:{r[:30]!r}:{list(ch)}", f"readouts with identification line {r.split(b'(')[0][:32]!r} chunking={list(ch)}: returned {len(got)} of 4 readouts",
                       {"raw": [x.hex() for x in sent], "chunking": list(ch)}, size=n)
                if p.full("clean_delivery"):
                    p.capped = True
                    return p
    return p


def _work_variants(task) -> core.Part:
    """Feeding variants that must not matter for the P1 reader (caller wipes its buffer, empty chunks, twin instance) and
    stability of returned readouts."""
    seq, = task
    p = core.Part()
    sent, S = build(list(seq))
    one = lambda m: (m.as_bytes, m.is_valid)  # noqa: E731
    want = tuple((x, True) for x in sent)
    p.add("nontrivial")
    for how, chunks in (("bytewise", X.bytewise(S)), ("fixed7", X.fixed(S, 7, 3)), ("fixed64", X.fixed(S, 64)), ("oneshot", [S])):
        for vname, early, final in X.feed_variants(P.new_reader, chunks, one, twin_stream=(shapes()["r_esc"] + shapes()["r_nocs"]) * 2):
            p.add("executions")
            p.add("events", len(chunks))
            if early != final or final != want:
                p.viol("clean_delivery", f"clean_delivery:variant:{'+'.join(seq)}:{how}:{vname}", f"{'+'.join(seq)} fed {how}, variant '{vname}': returned {len(final)} readouts, "
                       f"{'changed after being returned' if early != final else 'not the readouts sent'}", {"seq": list(seq), "chunking": ["cuts", []]}, size=len(S))
    return p


def _work_linesweep(task) -> core.Part:
    """Readouts with one data line of L characters (L swept) and with n data lines (n swept), well below 8 KiB in total."""
    items, = task
    p = core.Part()
    sh = shapes()
    for kind, n in items:
        if kind == "linelen":
            body = b"0-0:96.13.0(" + b"4" * n + b")"
            r = RP.build_readout(b"/ABC5xyz", [b"1-0:1.7.0(0001.320*kW)", body])
        else:
            r = RP.build_readout(b"/ABC5xyz", [b"1-0:1.8.0(%08d.000*kWh)" % i for i in range(n)])
        if len(r) > 8000:
            continue
        sent = [sh["r27"], r, sh["r45"], r]
        S = b"".join(sent)
        p.add("nontrivial")
        L = len(r)
        for ch in (("cuts", []), ("fixed", 1, 0) if len(S) < 3000 else ("fixed", 3, 1), ("fixed", 7, 3), ("fixed", 64, 5), ("fixed", 1000, 0), ("cuts", [27 + L // 2]), ("fixed", max(L - 1, 2), 0)):
            chunks = mk_chunks(S, ch)
            errs = stream_errors(sent, chunks)
            p.add("executions")
            p.add("events", len(chunks))
            p.out("all_delivered" if not errs else "loss_or_corruption")
            if errs:
                p.viol("clean_delivery", f"clean_delivery:{kind}:{n}:{list(ch)}", f"readout with {kind}={n} ({L} B) chunking={list(ch)}: {errs[0]}", {"raw": [x.hex() for x in sent], "chunking": list(ch)}, size=len(S))
                if p.full("clean_delivery"):
                    p.capped = True
                    return p
    return p


def main(run: core.Run) -> int:
    q = run.quick
    run.rule = ("streams = sequences of 1..3 readouts from 7 shapes (27 B..6 KiB), optional leading proper suffix of a readout, and homogeneous/alternating "
                "streams of 24..300 KiB; chunkings = one-shot, octet-wise, every single cut, every pair of cuts (<=120 B), fixed size k x every phase; "
                "non-trivial = distinct stream (each must deliver every readout byte-identically, valid, once, in order)")
    sh = shapes()
    for k, v in sh.items():
        d = RP.dissect(v)
        assert d["ident_ok"] and d["ascii"] and len(v) < 8000, k
    names = list(sh)
    small = ["r27", "r45", "r_nocs", "r_lf"]
    tasks = [((k,), None, 0, True) for k in names if k != "r6k"] + [(("r6k",), None, 0, False)]
    tasks += [(pr, None, 0, True) for pr in itertools.product(small, repeat=2)]
    tasks += [(tr, None, 0, False) for tr in itertools.product(small if not q else small[:3], repeat=3)]
    tasks += [((a, b), None, 0, False) for a in ("r_esc", "r1k") for b in small] + [((b, a), None, 0, False) for a in ("r_esc", "r1k") for b in small]
    split_tasks = []
    for seq, a, b, pairs in tasks:
        n = sum(len(sh[k]) for k in seq)
        for lo in range(0, n, 400):
            split_tasks.append((seq, a, b, pairs, lo, lo + 400))
    tasks = split_tasks
    run.log(f"short streams: {len(tasks)} partitions")
    run.merge(par.pmap(_work_short, tasks, seed=run.seed))
    run.merge(par.pmap(_work_variants, [(sq,) for sq in (("r27", "r45"), ("r_lf", "r_nocs", "r27"), ("r1k", "r45"), ("r6k",), ("r_esc", "r_esc"))], seed=run.seed))
    nv = len(ident_variants())
    run.merge(par.pmap(_work_idents, [(i, i + 2) for i in range(0, nv, 2)], seed=run.seed))
    sweep = [("linelen", n) for n in list(range(0, 200)) + [255, 256, 257, 511, 512, 513, 1023, 1024, 1025, 2047, 2048, 2049, 4095, 4096, 4097, 7000, 7900]]
    sweep += [("nlines", n) for n in list(range(0, 130)) + [200, 255, 256, 257, 280]]
    run.merge(par.pmap(_work_linesweep, [(sweep[i::32],) for i in range(32)], seed=run.seed))
    tt = []
    for tail_of in (names if not q else ["r27", "r45", "r_lf", "r1k"]):
        L = len(sh[tail_of])
        step = 64
        for lo in range(1, L, step):
            tt.append((tail_of, ("r45", "r27"), lo, lo + step))
    run.log(f"leading tails: {len(tt)} partitions (every proper suffix)")
    run.merge(par.pmap(_work_tails, tt, seed=run.seed))
    lt = []
    streams = [(("r45",), 45), (("r27",), 27), (("r45", "r27"), 72), (("r_lf",), len(sh["r_lf"])), (("r1k",), len(sh["r1k"])), (("r6k",), len(sh["r6k"])), (("r6k", "r45"), len(sh["r6k"]) + 45)]
    for seq, L in streams:
        total = 40 * 1024 if q else 120 * 1024
        rep = max(2, total // L)
        if q:
            ks = sorted(set(list(range(2, 17)) + [L - 1, L, L + 1]))
        else:
            ks = sorted(set(list(range(1, 65)) + list(range(L - 2, L + 3)) + list(range(2 * L - 1, 2 * L + 2))))
        ks = [k for k in ks if 1 <= k <= 9000]
        for k in ks:
            lt.append((seq, rep, [k], None))
        lt.append((seq, rep, [13], ("r45", 10)))
    if not q:
        for k in (8190, 8191, 8192, 8193):
            lt.append((("r6k",), 50, [k], None))  # 300 KiB
        lt.append((("r45",), 7000, [45, 91], None))  # 300 KiB of short readouts
    run.log(f"long streams: {len(lt)} (stream, chunk size) tasks, every phase each")
    run.merge(par.pmap(_work_long, lt, seed=run.seed))
    tot = run.total
    tot.sample({"stream": "r45 x 910 (40 KiB)", "chunking": "fixed size 45, phase 10", "expect": "910 readouts byte-identical"})
    tot.sample({"stream": (sh["r27"] + sh["r45"]).decode(), "chunkings": "one-shot, octet-wise, every single cut, every pair of cuts"})
    run.bounds = {"line_sweeps": "one data line of 0..199, 255..257, 511..513, 1023..1025, 2047..2049, 4095..4097, 7000, 7900 characters; 0..129, 200, 255..257, 280 data lines", "identification_variants": "0/1/2 escape sequences x id length 0/1/15/16 x LF/CRLF: every single cut, fixed 2..32 x every phase", "short_streams": f"{len(tasks)} sequences", "tails": "every proper suffix of " + ("4" if q else "7") + " shapes before two readouts",
                  "long_streams": f"{len(lt)} (stream, k) combinations x every phase (k<=96; for larger k the first/last 32 phases and 48 evenly spaced ones); totals " + ("40 KiB" if q else "120..300 KiB")}
    run.assumptions = ["readout builder mc/ref/p1.py; identification lines restricted to IEC-legal characters (no '/', '!')"]
    ex = tot.c.get("executions", 0)
    return run.finish(states=len(tot.d), transitions=tot.c.get("events", 0), traces=ex, evaluations=ex, distinct_nontrivial=tot.c.get("nontrivial", 0))
