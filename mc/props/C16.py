"""C16 - readers resynchronise after noise with bounded loss.
E1: every noise prefix over tiny alphabets / token alphabets (plus truncated, aborted and edited messages), each
followed by a clean suffix of messages; oracle: all suffix messages but possibly the first are delivered (HDLC with
stuffing, P1) / every flag-free suffix frame starting more than 2047 + its length after the noise (no stuffing)."""
from __future__ import annotations

import itertools

from mc import core, devs, par
from mc import hdlcx as X
from mc import p1x as P
from mc.props.C14 import P_TOK, P_TOKN
from mc.ref import hdlc as RH
from mc.ref import p1 as RP


# ---- suffixes -------------------------------------------------------------------------------------------------

def _flagfree_frame(n_info: int, seed: int) -> bytes:
    info = bytes(((i * 7 + seed) % 0x7C) + 1 for i in range(n_info))  # octets 01..7C: no 7E, no 7D
    for ctl in range(0x10, 0x40):
        f = RH.build_frame(0xA, 0, b"\x01", b"\x21", ctl, info)
        if RH.FLAG not in f and RH.ESC not in f:
            return f
    raise AssertionError("no flag-free frame")


_SUF = {}


def hdlc_suffix(cfg, k: int, shared: bool):
    """(wire bytes, [(offset of opening flag, frame octets), ...])"""
    key = (cfg[0], k, shared)
    if key in _SUF:
        return _SUF[key]
    if cfg[0]:
        pool = X.frame_pool()
        frames = ([pool["short"], pool["flagesc"]] if k < 4 else [pool["short"], pool["segbit"], pool["hdr_only"], pool["addr24"], pool["flagesc"]])
    else:
        frames = [_flagfree_frame(991, s) for s in range(3)] + [_flagfree_frame(41, s) for s in range(3)] + [_flagfree_frame(5, 1), _flagfree_frame(0, 2)]
        frames = frames if k >= 4 else frames[:5]
    out = bytearray()
    offs = []
    for i, f in enumerate(frames):
        if shared and i > 0:
            offs.append((len(out) - 1, f))
        else:
            offs.append((len(out), f))
            out += b"\x7e"
        out += RH.wire(f, cfg[0])
        out += b"\x7e"
    _SUF[key] = (bytes(out), offs)
    return _SUF[key]


def required(cfg, offs):
    if cfg[0]:
        return [f for _, f in offs[1:]]
    return [f for o, f in offs if o > RH.MAXLEN + len(f)]


def _subseq(expected, got) -> bool:
    it = iter(got)
    return all(any(g == e for g in it) for e in expected)


def hdlc_resync_errors(cfg, noise: bytes, suf: bytes, need, chunks) -> list[str]:
    frames, _ = X.feed(cfg, chunks)
    good = [f.as_bytes for f in frames if f.is_valid]
    if not _subseq(need, good):
        missing = [e.hex()[:24] for e in need if e not in good]
        return [f"[{X.cfg_name(cfg)}] after noise {noise.hex() if len(noise) <= 40 else noise[:20].hex() + '..(%d B)' % len(noise)}: "
                f"{len(need)} clean frames must be delivered, valid frames returned: {len(good)}; missing/out of order: {missing[:3]}"]
    return []


def chunkings(noise: bytes, suf: bytes, full_bytewise: bool):
    S = noise + suf
    b = len(noise)
    yield "oneshot", [S]
    yield "noise-bytewise", X.bytewise(noise) + [suf]
    for d in (-2, -1, 0, 1, 2):
        c = b + d
        if 0 < c < len(S):
            yield f"cut{d:+d}", [S[:c], S[c:]]
    if full_bytewise:
        yield "bytewise", X.bytewise(S)


def replay(case: dict) -> list[str]:
    if "chunks_b" in case:
        from mc.props import C06

        return C06.replay(case)
    if case["reader"] == "hdlc_sweep":
        cfg = tuple(case["cfg"])
        pool = X.frame_pool()
        fr = bytes.fromhex(case["frame"])
        lead = [] if cfg[0] else [_flagfree_frame(991, s_) for s_ in range(3)]
        frames = lead + [pool["short"] if cfg[0] else _flagfree_frame(5, 1), fr, pool["hdr_only"] if cfg[0] else _flagfree_frame(0, 2)]
        out = bytearray()
        offs = []
        for i, f in enumerate(frames):
            if case["shared"] and i > 0:
                offs.append((len(out) - 1, f))
            else:
                offs.append((len(out), f))
                out += b"\x7e"
            out += RH.wire(f, cfg[0])
            out += b"\x7e"
        noise = bytes.fromhex(case["noise"])
        chunks = dict(chunkings(noise, bytes(out), True))[case["how"]]
        return hdlc_resync_errors(cfg, noise, bytes(out), required(cfg, offs), chunks)
    if case["reader"] == "hdlc":
        cfg = tuple(case["cfg"])
        noise = bytes.fromhex(case["noise"])
        suf, offs = hdlc_suffix(cfg, case["k"], case["shared"])
        chunks = dict(chunkings(noise, suf, True))[case["how"]]
        return hdlc_resync_errors(cfg, noise, suf, required(cfg, offs), chunks)
    noise = bytes.fromhex(case["noise"])
    if case["reader"] == "p1cuts":
        suf, msgs = p1_suffix(False)
        S = noise + suf
        cs = tuple(case["cuts"])
        return p1_resync_errors(noise, msgs, [S[i:j] for i, j in zip((0,) + cs, cs + (len(S),))])
    suf, msgs = p1_suffix(case.get("big", False))
    if case.get("big"):
        return p1_resync_errors(noise, msgs, X.fixed(noise + suf, int(case["how"][5:])))
    return p1_resync_errors(noise, msgs, _p1_chunks(noise + suf, len(noise), case["how"]))


def _hrun(p, cfg, noise, label, ks=(2, 4), shared_forms=(False, True), full_bytewise=None):
    for k in ks:
        for shared in shared_forms:
            suf, offs = hdlc_suffix(cfg, k, shared)
            need = required(cfg, offs)
            fb = cfg[0] if full_bytewise is None else full_bytewise
            for how, chunks in chunkings(noise, suf, fb):
                errs = hdlc_resync_errors(cfg, noise, suf, need, chunks)
                p.add("executions")
                p.add("events", len(chunks))
                p.out("resynchronised" if not errs else "lost_frames")
                if errs:
                    kind = "resync_shared_flag" if shared else "resync"
                    p.viol(kind, f"{kind}:{X.cfg_name(cfg)}:{noise.hex() if len(noise) <= 40 else label}:{k}:{how}", f"{label} k={k} shared_flags={shared} {how}: {errs[0]}",
                           {"reader": "hdlc", "cfg": list(cfg), "noise": noise.hex(), "k": k, "shared": shared, "how": how}, size=len(noise))


def _work_h_octets(task) -> core.Part:
    cfg, alpha, N, prefix = task
    p = core.Part()
    for L in range(len(prefix), N + 1):
        for tail in itertools.product(alpha, repeat=L - len(prefix)):
            noise = bytes(prefix + tail)
            _hrun(p, cfg, noise, "octets", ks=(2,) if not cfg[0] else (2, 4), shared_forms=(False,) if not cfg[0] else (False, True))
            p.add("nontrivial")
        if p.full("resync"):
            p.capped = True
            break
    return p


def _work_h_tokens(task) -> core.Part:
    cfg, N, prefix = task
    p = core.Part()
    for L in range(len(prefix), N + 1):
        for tail in itertools.product(X.TOKN, repeat=L - len(prefix)):
            w = prefix + tail
            noise = b"".join(X.TOK[t] for t in w)
            _hrun(p, cfg, noise, "tokens " + " ".join(w), ks=(4,), shared_forms=(False,))
            p.add("nontrivial")
        if p.full("resync"):
            p.capped = True
            break
    return p


def structured_noises(cfg):
    """Truncated/aborted/edited messages and length-announcing headers."""
    pool = X.frame_pool()
    out = []
    for name, f in pool.items():
        w = RH.wire(f, cfg[0])
        cuts = range(0, len(w) + 1) if len(w) < 100 else list(range(0, 14)) + [100, 1000, 2040, len(w) - 2, len(w) - 1, len(w)]
        for c in cuts:
            for tail in (b"", b"\x7d", b"\x7e", b"\x7d\x7e"):
                out.append((f"{name}[:{c}]+{tail.hex()}", b"\x7e" + w[:c] + tail))
                out.append((f"fill+{name}[:{c}]+{tail.hex()}", b"\x7e\x7e" + w[:c] + tail))
    for ln in (7, 10, 50, 2047):
        hdr = bytes((0xA0 | (ln >> 8), ln & 0xFF))
        for extra in (b"", b"\x01", b"\x01\x21", b"\x01\x21\x13"):
            out.append((f"hdr announcing {ln}+{extra.hex()}", b"\x7e" + hdr + extra))
    out.append(("3000 octets without flag", bytes(range(1, 0x7D)) * 25))
    out.append(("flag + 3000 octets without flag", b"\x7e" + bytes(range(1, 0x7D)) * 25))
    for name in ("short", "flagesc", "hdr_only"):
        w = b"\x7e" + RH.wire(pool[name], cfg[0]) + b"\x7e"
        for ed, S in devs.edits_upto(w, 1, devs.HDLC_SUBS, devs.HDLC_INS, ((1, len(w) - 1),)):
            out.append((f"{name} edits={list(ed)}", S))
    return out


def _work_h_struct(task) -> core.Part:
    cfg, lo, hi = task
    p = core.Part()
    for label, noise in structured_noises(cfg)[lo:hi]:
        _hrun(p, cfg, noise, label, full_bytewise=len(noise) < 200)
        p.add("nontrivial")
    return p


def _work_h_sweep(task) -> core.Part:
    """Suffix frames drawn from the FCS/HCS-octet sweep (every octet value in every check-sequence position), after a few
    representative noises: value-dependent treatment of check-sequence octets must not cost a second frame."""
    cfg, lo, hi = task
    p = core.Part()
    pool = X.frame_pool()
    noises = [b"", bytes.fromhex("7e017d"), bytes.fromhex("7ea0"), bytes.fromhex("7e7d"), b"\x7e" + RH.wire(pool["short"], cfg[0])[:9]]
    lead = [] if cfg[0] else [_flagfree_frame(991, s_) for s_ in range(3)]
    for label, fr in X.fcs_sweep_frames()[lo:hi]:
        if not cfg[0] and (RH.FLAG in fr or (cfg[1] and (RH.ESC in fr))):
            continue  # the no-stuffing guarantee is for flag-free frames
        frames = lead + [pool["short"] if cfg[0] else _flagfree_frame(5, 1), fr, pool["hdr_only"] if cfg[0] else _flagfree_frame(0, 2)]
        for shared in (False, True):
            out = bytearray()
            offs = []
            for i, f in enumerate(frames):
                if shared and i > 0:
                    offs.append((len(out) - 1, f))
                else:
                    offs.append((len(out), f))
                    out += b"\x7e"
                out += RH.wire(f, cfg[0])
                out += b"\x7e"
            suf = bytes(out)
            need = required(cfg, offs)
            for noise in noises:
                for how, chunks in chunkings(noise, suf, cfg[0]):
                    if not cfg[0] and how.startswith("cut") and how != "cut+0":
                        continue
                    errs = hdlc_resync_errors(cfg, noise, suf, need, chunks)
                    p.add("executions")
                    p.add("events", len(chunks))
                    p.out("resynchronised" if not errs else "lost_frames")
                    if errs:
                        kind = "resync_shared_flag" if shared else "resync"
                        p.viol(kind, f"{kind}:{X.cfg_name(cfg)}:{noise.hex()}:{label}:{how}", f"suffix [short, {label} {fr.hex()}, hdr_only] shared_flags={shared} {how}: {errs[0]}",
                               {"reader": "hdlc_sweep", "cfg": list(cfg), "noise": noise.hex(), "frame": fr.hex(), "shared": shared, "how": how}, size=len(noise))
        p.add("nontrivial")
        if p.full("resync") or p.full("resync_shared_flag"):
            p.capped = True
            break
    return p


# ---- P1 --------------------------------------------------------------------------------------------------------
_P1S = None


def p1_suffix(big: bool = False):
    global _P1S
    if _P1S is None:
        pool = P.readout_pool()
        msgs = [pool["min_crc"], pool["six_crc"], pool["lf_crc"], pool["min_nocs"]]
        lines = [b"1-0:%d.8.0(%08d.%03d*kWh)" % (i % 90 + 1, i * 7919 % 10**8, i % 1000) for i in range(200)]
        r5k = RP.build_readout(b"/LGF5E360", lines[:170])
        r6k = RP.build_readout(b"/KAM5", lines)
        bigm = [pool["min_crc"], r5k, pool["six_crc"], r6k, r5k, pool["min_nocs"]]
        _P1S = ((b"".join(msgs), msgs), (b"".join(bigm), bigm))
    return _P1S[1 if big else 0]


def p1_resync_errors(noise, msgs, chunks) -> list[str]:
    got, _ = P.feed(chunks)
    good = [m.as_bytes for m in got if m.is_valid]
    if not _subseq(msgs[1:], good):
        return [f"after noise {noise!r:.60}: clean readouts 2..{len(msgs)} must be delivered; valid readouts returned: {len(good)}"]
    return []


def _p1_chunks(S, b, how):
    if how == "oneshot":
        return [S]
    if how == "bytewise":
        return X.bytewise(S)
    if how.startswith("fixed"):
        k = int(how[5:])
        return X.fixed(S[:b], k) + [S[b:]] if b > 4000 else X.fixed(S, k)
    d = int(how[3:])
    return [S[:b + d], S[b + d:]]


def _prun(p, noise, label, hows, big=False):
    suf, msgs = p1_suffix(big)
    S = noise + suf
    for how in hows:
        if how.startswith("cut") and not (0 < len(noise) + int(how[3:]) < len(S)):
            continue
        errs = p1_resync_errors(noise, msgs, _p1_chunks(S, len(noise), how) if not big else X.fixed(S, int(how[5:])))
        p.add("executions")
        p.out("resynchronised" if not errs else "lost_readouts")
        if errs:
            p.viol("resync_p1", f"resync_p1:{noise.hex() if len(noise) <= 48 else label}:{how}:{big}", f"{label} {how}{' (suffix with 5-6 KiB readouts)' if big else ''}: {errs[0]}",
                   {"reader": "p1", "noise": noise.hex(), "how": how, "big": big}, size=len(noise))


P1_HOWS = ("oneshot", "bytewise", "fixed7", "cut+0", "cut-1", "cut+1", "fixed1000")


def _work_p_tokens(task) -> core.Part:
    prefix, N = task
    p = core.Part()
    for L in range(len(prefix), N + 1):
        for tail in itertools.product(P_TOKN, repeat=L - len(prefix)):
            w = prefix + tail
            noise = b"".join(P_TOK[t] for t in w)
            _prun(p, noise, "tokens " + " ".join(w), P1_HOWS)
            p.add("nontrivial")
        if p.full("resync_p1"):
            p.capped = True
            break
    return p


def _work_p_struct(task) -> core.Part:
    lo, hi = task
    p = core.Part()
    pool = P.readout_pool()
    noises = []
    for name, r in pool.items():
        for c in range(0, len(r)):
            noises.append((f"{name}[:{c}]", r[:c]))
    line = b"1-0:1.8.0(00000896.020*kWh)\r\n"
    noises.append(("ident + 4000 B of data lines", b"/ABC5xyz\r\n" + line * 138))
    noises.append(("4000 B of data lines", line * 138))
    noises.append(("5000 B without LF", b"x" * 5000))
    noises.append(("'/' + 5000 B without LF", b"/" + b"x" * 5000))
    noises.append(("ident + 9000 B of data lines", b"/ABC5xyz\r\n" + line * 310))
    for label, noise in noises[lo:hi]:
        _prun(p, noise, label, P1_HOWS if len(noise) < 300 else ("oneshot", "fixed7", "cut+0", "fixed1000"))
        if len(noise) % 5 == 0 or len(noise) > 300:
            _prun(p, noise, label, ("fixed64", "fixed256", "fixed1000", "fixed13"), big=True)
        p.add("nontrivial")
    return p


def junk_with_slash():
    """Realistic junk that contains '/' lines which are not identification lines (terminal-server banners, paths, a
    readout whose identification line was hit by noise), followed by ordinary lines."""
    pool = P.readout_pool()
    line = b"1-0:1.8.0(00000896.020*kWh)\r\n"
    out = [("ser2net banner", b"ser2net port 2001 device /dev/ttyUSB0 [2400 N81] (Debian GNU/Linux)\r\n\r\n" + line),
           ("path lines", b"/dev/ttyUSB0\r\n/x\r\n" + line * 2),
           ("slash only lines", b"/\r\n//\r\n" + line)]
    six = pool["six_crc"]
    for i in range(1, 9):
        for sub in (0x80, 0x2F, 0x21, 0x0A):
            out.append((f"six_crc with identification octet {i} -> {sub:02x}", six[:i] + bytes([sub]) + six[i + 1:]))
    out.append(("lower-case identification", b"/abc5xyz\r\n" + line * 3 + b"!\r\n"))
    return out


def _work_p_allcuts(task) -> core.Part:
    """Every single cut and (for the short ones) every pair of cuts of junk-with-slash + suffix inside the junk and the
    first readout: stale positions of a line buffer only show for particular chunk boundaries."""
    lo, step, pairs = task
    p = core.Part()
    suf, msgs = p1_suffix(False)
    for idx, (label, noise) in enumerate(junk_with_slash()):
        if idx % step != lo:
            continue
        S = noise + suf
        hi = len(noise) + len(msgs[0]) + 12
        cutsets = [(c,) for c in range(1, hi)]
        if pairs and len(noise) < 120:
            cutsets += [(a, b) for a in range(1, hi) for b in range(a + 1, hi)]
        for cs in cutsets:
            chunks = [S[i:j] for i, j in zip((0,) + cs, cs + (len(S),))]
            errs = p1_resync_errors(noise, msgs, chunks)
            p.add("executions")
            p.out("resynchronised" if not errs else "lost_readouts")
            if errs:
                p.viol("resync_p1", f"resync_p1:cuts:{label}:{cs}", f"{label}, chunks cut at {list(cs)}: {errs[0]}", {"reader": "p1cuts", "noise": noise.hex(), "cuts": list(cs)}, size=len(noise))
        p.add("nontrivial")
        if p.full("resync_p1"):
            p.capped = True
            break
    return p


def long_noises(reader: str, quick: bool):
    """Noise built by repeating a 1..2-token cycle of the C19 pattern alphabets until several KiB are fed: reaches the
    readers' overflow guards and counters (states that short noise cannot reach)."""
    from mc.props import C19

    toks = C19.p_tokens() if reader == "p1" else C19.h_tokens()
    names = list(toks)
    pres = [(), ("ident",)] if reader == "p1" else [(), ("flag",), ("trunc",)]
    if not quick:
        pres = [()] + [(t,) for t in names]
    totals = (8300, 20000) if reader == "p1" else (2100, 5000)
    for pre in pres:
        for n in (1, 2):
            for cyc in itertools.product(names, repeat=n):
                unit = b"".join(toks[t] for t in cyc)
                if len(unit) > 3000:
                    continue
                for total in totals:
                    reps = -(-total // len(unit))
                    yield f"{'+'.join(pre)}|({'+'.join(cyc)})x{reps}", b"".join(toks[t] for t in pre) + unit * reps


def _work_long_noise(task) -> core.Part:
    reader, quick, lo, step = task
    p = core.Part()
    for idx, (label, noise) in enumerate(long_noises(reader, quick)):
        if idx % step != lo:
            continue
        p.add("nontrivial")
        if reader == "p1":
            _prun(p, noise, label, ("oneshot", "fixed7", "fixed1000", "cut+0", "fixed64"))
        else:
            for cfg in X.CFGS:
                _hrun(p, cfg, noise, label, ks=(4,), shared_forms=(False,), full_bytewise=False)
        if p.full("resync") or p.full("resync_p1"):
            p.capped = True
            break
    return p


def main(run: core.Run) -> int:
    q = run.quick
    run.rule = ("noise prefix (every string/token sequence up to the bound; every truncation of every pool message with 7D/7E/7D7E appended; announced-length headers; "
                "1-edit messages; long flag-free/LF-free runs) followed by a clean suffix; chunkings one-shot, noise octet-wise, cuts at the boundary -2..+2, octet-wise; "
                "non-trivial = distinct noise prefixes")
    NQ = {True: (5, 4), False: (5, 3)} if q else {True: (7, 5), False: (6, 5)}
    tasks = []
    for cfg in X.CFGS:
        alpha = X.SIGMA_HP if cfg[0] else X.SIGMA_H
        n = NQ[cfg[0]][0]
        tasks.append((cfg, alpha, 1, ()))
        for a in alpha:
            tasks.append((cfg, alpha, 1, (a,)))
            for b in alpha:
                tasks.append((cfg, alpha, n, (a, b)))
    run.log(f"HDLC octet noise: {len(tasks)} partitions")
    run.merge(par.pmap(_work_h_octets, tasks, seed=run.seed))
    tt = []
    for cfg in X.CFGS:
        n = NQ[cfg[0]][1]
        tt.append((cfg, 1, ()))
        for a in X.TOKN:
            tt.append((cfg, 1, (a,)))
            for b in X.TOKN:
                tt.append((cfg, n, (a, b)))
    run.log(f"HDLC token noise: {len(tt)} partitions")
    run.merge(par.pmap(_work_h_tokens, tt, seed=run.seed))
    st = []
    for cfg in X.CFGS:
        n = len(structured_noises(cfg))
        st += [(cfg, lo, lo + 40) for lo in range(0, n, 40)]
    run.log(f"HDLC structured noise: {len(st)} partitions")
    run.merge(par.pmap(_work_h_struct, st, seed=run.seed))
    nsw = len(X.fcs_sweep_frames())
    run.log(f"HDLC check-sequence octet sweep: {nsw} suffix frames")
    run.merge(par.pmap(_work_h_sweep, [(cfg, lo, lo + 43) for cfg in X.CFGS for lo in range(0, nsw, 43)], seed=run.seed))
    NPT = 3 if q else 4
    pt = [((), 1)] + [((a,), NPT if NPT == 1 else 1) for a in P_TOKN] + [((a, b), NPT) for a in P_TOKN for b in P_TOKN]
    run.log(f"P1 token noise <= {NPT}: {len(pt)} partitions")
    run.merge(par.pmap(_work_p_tokens, pt, seed=run.seed))
    npn = sum(len(r) for r in P.readout_pool().values()) + 5
    run.merge(par.pmap(_work_p_struct, [(lo, lo + 25) for lo in range(0, npn, 25)], seed=run.seed))
    # noise + clean suffix handed over in ways that must not matter (re-used receive buffer, other live readers left in
    # the middle of a frame, ...): the same frames as with plain feeding
    from mc.props import C06

    pool = X.frame_pool()
    vt = []
    for cfg in X.CFGS:
        suf, _ = hdlc_suffix(cfg, 4, False)
        for label, noise in (("7ea07d", bytes.fromhex("7ea07d")), ("trunc", b"\x7e" + RH.wire(pool["short"], cfg[0])[:9]), ("junk", b"\x00\x7d\x7e\x7e\x11")):
            vt.append((f"noise {label} + 4 clean frames", noise + suf, (cfg,)))
    run.merge(par.pmap(C06._work_variants, vt, seed=run.seed))
    run.log("junk with '/' lines x every cut (pairs of cuts for the short ones)")
    run.merge(par.pmap(_work_p_allcuts, [(i, 36, not q or i < 3) for i in range(36)], seed=run.seed))
    run.log("long periodic noise (several KiB) then clean suffix")
    run.merge(par.pmap(_work_long_noise, [(rd, q, i, 32) for rd in ("p1", "hdlc") for i in range(32)], seed=run.seed))
    tot = run.total
    tot.sample({"cfg": "stuffing=1,abort=0", "noise": "7e a0 7d", "suffix": "4 clean frames, each 7e F 7e", "required": "frames 2..4 valid, in order"})
    tot.sample({"reader": "P1", "noise": "/ABC5x\\r\\n1-0:1.8.0", "suffix": "4 clean readouts", "required": "readouts 2..4"})
    run.bounds = {"hdlc_octets": f"Sigma_h+^<={NQ[True][0]} (stuffing), Sigma_h^<={NQ[False][0]} (no stuffing)", "hdlc_tokens": f"<={NQ[True][1]} tokens",
                  "p1_tokens": f"<={NPT} tokens", "long_noise": "prefix x (cycle of 1..2 pattern tokens) repeated to 8.3/20 KiB (P1) or 2.1/5 KiB (HDLC), 5 chunkings", "structured": "every truncation of 8 frames / 8 readouts (+7D, 7E, 7D7E), headers announcing 7/10/50/2047, 1-edit frames, 3000 B flag-free, 4000-9000 B data lines, 5000 B without LF"}
    run.assumptions = ["suffix messages are delimited as on a real line: own opening and closing flag per frame (shared single flag form checked and reported separately), readouts back to back",
                       "no stuffing: a suffix frame is required once it starts more than 2047 + its own length after the noise"]
    ex = tot.c.get("executions", 0)
    return run.finish(states=tot.c.get("nontrivial", 0), transitions=tot.c.get("events", 0) + ex, traces=ex, evaluations=ex, distinct_nontrivial=tot.c.get("nontrivial", 0))
