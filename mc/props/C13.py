"""C13 - protocols forward exactly the selected reader's messages, payloads only if valid.
E1 over a 10-segment alphabet (clean/corrupted HDLC frames, P1 readouts, noise) x chunk enumeration x candidate
reader lists x both protocol classes; expected queue computed from independent reader instances fed the same chunks."""
from __future__ import annotations

import asyncio
import itertools

from mc import core, par
from mc import hdlcx as X
from mc import p1x as P
from mc.ref import hdlc as RH
from mc.ref import p1 as RP

SPECS = (("H",), ("P",), ("H", "P"), ("P", "H"), ("Hs",), ("Hs", "P"), ("H", "Hs", "P"))
_LOOP = None


def _ensure_loop():
    global _LOOP
    if _LOOP is None:
        _LOOP = asyncio.new_event_loop()
        asyncio.set_event_loop(_LOOP)


def segments():
    Fp = RH.build_frame(0xA, 0, b"\x01", b"\x21", 0x13, b"\xe6\xe7\x00payload")
    F0 = RH.build_frame(0xA, 0, b"\x01", b"\x21", 0x13)
    Fbad = Fp[:-1] + bytes([Fp[-1] ^ 1])
    Flen = RH.build_frame(0xA, 0, b"\x01", b"\x21", 0x13, b"\xe6\xe7\x00payload", length=len(Fp) + 1)
    Fs = RH.build_frame(0xA, 0, b"\x01", b"\x21", 0x13, b"\x7e\x7dz")
    R = RP.build_readout(b"/ABC5xyz", [b"1-0:1.7.0(0001.320*kW)"], blank_after_ident=False)
    Rbad = R[:-6] + b"1234\r\n"
    Rno = RP.build_readout(b"/KAM5", [b"1-0:32.7.0(230.1*V)"], checksum=None)
    assert RP.dissect(Rbad)["sent"] != RP.dissect(Rbad)["crc"]
    Fp1 = RH.build_frame(0xA, 0, b"\x01", b"\x21", 0x13, R)  # a valid frame that carries a complete valid readout
    Rhi = RP.build_readout(b"/ABC5xyz", [b"1-0:1.7.0(0001.3\xe50*kW)"], blank_after_ident=False)  # line noise: a non-ASCII octet in a data line
    return {
        "Fp1": b"\x7e" + Fp1 + b"\x7e", "Rhi": Rhi,
        "Fp": b"\x7e" + Fp + b"\x7e", "F0": b"\x7e" + F0 + b"\x7e", "Fbad": b"\x7e" + Fbad + b"\x7e", "Flen": b"\x7e" + Flen + b"\x7e",
        "Fs": b"\x7e" + RH.stuff(Fs) + b"\x7e", "R": R, "Rbad": Rbad, "Rno": Rno, "bin": bytes([0x00, 0xFF, 0x2F, 0x41, 0x0A, 0x7D]), "asc": b"hello\r\n",
    }


SEG = segments()
SEGN = tuple(SEG)
SEGN_CORE = tuple(k for k in SEG if k not in ("Fp1", "Rhi"))
CLEAN_H = {"Fp": b"\xe6\xe7\x00payload", "F0": None}  # (Fp1 can legitimately be taken for P1 traffic: not in the completeness clause)
CLEAN_P = {"R": RP.dissect(SEG["R"])["payload"], "Rno": RP.dissect(SEG["Rno"])["payload"]}


def mkreaders(spec):
    from han import dlde, hdlc

    out = []
    for s in spec:
        if s == "H":
            out.append(hdlc.HdlcFrameReader(False, True))
        elif s == "Hs":
            out.append(hdlc.HdlcFrameReader(True, True))
        else:
            out.append(dlde.ModeDReader())
    return out


def expected(spec, chunks, payload_mode):
    """Reference: independent readers; selection = first (chunk, list order) whose read() returns a valid message."""
    rs = mkreaders(spec)
    sel = None
    q = []
    for c in chunks:
        if sel is None:
            ms = None
            for i, r in enumerate(rs):
                got = r.read(c)
                if any(m.is_valid for m in got):
                    sel, ms = i, got
                    break
            if sel is None:
                continue
        else:
            ms = rs[sel].read(c)
        for m in ms:
            if payload_mode:
                if m.is_valid and m.payload:
                    q.append(bytes(m.payload))
            else:
                q.append((m.message_type.name, m.as_bytes))
    return q


def actual(spec, chunks, payload_mode):
    from han import meter_connection as mc

    _ensure_loop()
    q = asyncio.Queue()
    cls = mc.SmartMeterMessagePayloadProtocol if payload_mode else mc.SmartMeterMessageProtocol
    p = cls(q, mkreaders(spec))
    # a second protocol instance with its own queue is fed other traffic in alternation: instances must not interfere
    twin = cls(asyncio.Queue(), mkreaders(spec))
    for i, c in enumerate(chunks):
        p.data_received(c)
        if i < 40:
            try:
                twin.data_received(SEG["R"] if i % 2 else SEG["Fp"])
            except Exception:  # noqa: BLE001
                pass
    out = []
    while not q.empty():
        x = q.get_nowait()
        out.append(bytes(x) if payload_mode else (x.message_type.name, x.as_bytes))
    return out


def clean_expect(w, spec):
    """Completeness clause: on a clean single-protocol stream every non-empty payload must be queued (or None if
    the stream/candidates are outside that clause)."""
    if all(s in CLEAN_H for s in w) and ("H" in spec):
        if "Hs" in spec and spec.index("Hs") < spec.index("H"):
            return None
        return [CLEAN_H[s] for s in w if CLEAN_H[s]]
    if all(s in CLEAN_P for s in w) and "P" in spec:
        return [CLEAN_P[s] for s in w]
    return None


def mk_chunks(S, ch):
    if ch[0] == "cuts":
        return X.split(S, ch[1])
    if ch[0] == "fixed":
        return X.fixed(S, ch[1], 0)
    return X.bytewise(S)


def check(w, spec, payload_mode, ch) -> list[str]:
    if ch[0] == "containers":
        from mc.props import C14

        return C14.protocol_container_errors()
    S = b"".join(SEG[x] for x in w)
    if ch[0] == "noisecalls":
        chunks = [bytes.fromhex(ch[2])] * ch[1] + [SEG[x] for x in w]
        e = expected(spec, chunks, payload_mode)
        a = actual(spec, chunks, payload_mode)
        return [f"queue {a!r:.150} != expected from the selected reader {e!r:.150}"] if e != a else []
    chunks = mk_chunks(S, ch)
    e = expected(spec, chunks, payload_mode)  # (a reader that raises is C14's business: propagates to the caller)
    try:
        a = actual(spec, chunks, payload_mode)
    except Exception as ex:  # noqa: BLE001
        return [f"data_received() raised {type(ex).__name__} although the readers themselves handle this stream: the queue misses {len(e)} item(s)"]
    errs = []
    if e != a:
        errs.append(f"queue {a!r:.150} != expected from the selected reader {e!r:.150}")
    if payload_mode:
        ce = clean_expect(w, spec)
        if ce is not None and a != ce:
            errs.append(f"clean stream: queue {a!r:.120} != all non-empty payloads {ce!r:.120}")
    return errs


def replay(case: dict) -> list[str]:
    return check(tuple(case["segments"]), tuple(case["readers"]), case["payload_mode"], case["chunking"])


def _work(task) -> core.Part:
    prefix, N, pairs_upto = task
    p = core.Part()
    for L in range(len(prefix), N + 1):
        for tail in itertools.product(SEGN if L <= 2 else SEGN_CORE, repeat=L - len(prefix)):
            w = prefix + tail
            if L > 2 and not set(w) <= set(SEGN_CORE):
                continue
            S = b"".join(SEG[x] for x in w)
            n = len(S)
            fam = [("cuts", []), ("bytewise",)] + [("cuts", [i]) for i in range(1, n)] + [("fixed", k) for k in range(2, 8)]
            if L <= pairs_upto and n <= 120:
                fam += [("cuts", [i, j]) for i in range(1, n) for j in range(i + 1, n)]
            p.add("nontrivial")
            for spec in SPECS:
                for pm in (True, False):
                    for ch in fam:
                        if L <= 2 and ch[0] != "cuts":
                            core.set_logging("debug" if core.LOG_MODE == "off" else "off")  # short sequences see both logging configurations
                        try:
                            errs = check(w, spec, pm, ch)
                        except Exception as ex:  # noqa: BLE001  (C14's business)
                            p.add("exceptions_seen_(C14)")
                            p.out("raised:" + type(ex).__name__)
                            continue
                        p.add("executions")
                        p.out("forwarded_ok" if not errs else "mismatch")
                        if errs:
                            p.viol("forwarding", f"forwarding:{'+'.join(w)}:{'/'.join(spec)}:{pm}:{ch}",
                                   f"segments {list(w)} readers {list(spec)} {'payload' if pm else 'message'} protocol chunking {ch}: {errs[0]}",
                                   {"segments": list(w), "readers": list(spec), "payload_mode": pm, "chunking": list(ch)}, size=n)
                            if p.full("forwarding"):
                                p.capped = True
                                return p
    return p


def _work_runs(task) -> core.Part:
    """Long runs: k invalid messages in a row (k = 1..40) between valid ones, and k valid ones before an invalid one;
    a counter or threshold in the forwarding path shows here, not in sequences of <= 4 segments."""
    ks, = task
    p = core.Part()
    for k in ks:
        seqs = []
        for good, bads in (("Fp", ("Fbad", "Flen")), ("R", ("Rbad",))):
            for bad in bads:
                seqs.append((good,) + (bad,) * k + (good, good))
                seqs.append((bad,) * k + (good, good))
                seqs.append((good,) * k + (bad, good))
        for w in seqs:
            segs = [SEG[x] for x in w]
            S = b"".join(segs)
            cuts = []
            a = 0
            for sg in segs[:-1]:
                a += len(sg)
                cuts.append(a)
            fam = [("cuts", []), ("cuts", cuts), ("fixed", 7), ("cuts", cuts[:1])]
            p.add("nontrivial")
            for spec in (("H",), ("P",), ("H", "P"), ("P", "H")):
                for pm in (True, False):
                    for ch in fam:
                        try:
                            errs = check(w, spec, pm, ch)
                        except Exception as ex:  # noqa: BLE001
                            p.add("exceptions_seen_(C14)")
                            continue
                        p.add("executions")
                        p.out("forwarded_ok" if not errs else "mismatch")
                        if errs:
                            p.viol("forwarding", f"forwarding:run{k}:{w[0]}:{w[1]}:{'/'.join(spec)}:{pm}:{ch[0]}",
                                   f"{len(w)} segments [{w[0]}, {w[1]} ... {w[-1]}] (run length {k}) readers {list(spec)} {'payload' if pm else 'message'} protocol chunking {ch[0]}: {errs[0]}",
                                   {"segments": list(w), "readers": list(spec), "payload_mode": pm, "chunking": list(ch)}, size=len(S))
                            if p.full("forwarding"):
                                p.capped = True
                                return p
    return p


def _work_containers(task) -> core.Part:
    """Candidate readers handed over as a tuple, and one list object handed to two protocol instances in a row (the
    'lambda: Protocol(queue, readers)' factory pattern after a reconnect): the clean traffic of each connection must be
    forwarded, and the caller's list must be left alone."""
    from mc.props import C14

    p = core.Part()
    for m in C14.protocol_container_errors():
        p.viol("forwarding", f"forwarding:container:{m[:80]}", m, {"segments": [], "readers": [], "payload_mode": True, "chunking": ["containers"]}, size=1)
    p.add("executions", 12)
    return p


def _work_manycalls(task) -> core.Part:
    """n data_received() calls of noise (n up to 3000) in which no candidate finds anything, then a clean stream in the
    format of the first / second candidate: counters on calls (not on bytes) show here."""
    n, = task
    p = core.Part()
    noises = {"binary without flag": bytes([0x11, 0x22, 0x33]), "ascii without start char": b"abc", "flag-free with LF": b"x\n"}
    for nname, unit in noises.items():
        for w in (("Fp", "F0", "Fp"), ("R", "Rno", "R")):
            tail = [SEG[x] for x in w]
            chunks = [unit] * n + tail
            for spec in (("H", "P"), ("P", "H"), ("H", "Hs", "P"), ("H",), ("P",)):
                for pm in (True, False):
                    try:
                        e = expected(spec, chunks, pm)
                        a = actual(spec, chunks, pm)
                    except Exception:  # noqa: BLE001
                        p.add("exceptions_seen_(C14)")
                        continue
                    p.add("executions")
                    p.add("nontrivial")
                    if e != a:
                        p.viol("forwarding", f"forwarding:manycalls:{n}:{nname}:{w[0]}:{'/'.join(spec)}:{pm}",
                               f"{n} data_received() calls of noise ({nname}), then segments {list(w)}; readers {list(spec)} {'payload' if pm else 'message'} protocol: queue {a!r:.100} != expected {e!r:.100}",
                               {"segments": list(w), "readers": list(spec), "payload_mode": pm, "chunking": ["noisecalls", n, unit.hex()]}, size=n)
    return p


def main(run: core.Run) -> int:
    q = run.quick
    run.rule = ("streams = every sequence of <=N segments over {valid frame, header-only frame, bad-FCS frame, wrong-length frame, stuffed frame, valid readout, bad-CRC readout, "
                "checksum-less readout, binary noise, ASCII noise}; x 7 candidate lists x 2 protocol classes x chunkings (one-shot, octet-wise, every single cut, fixed 2..7, pairs of cuts for short streams); "
                "non-trivial = distinct segment sequences")
    N = 3 if q else 4
    tasks = [((), 1, 1)]
    if q:
        tasks += [((a, b), N, 1) for a in SEGN for b in SEGN]
    else:
        tasks += [((a, b), 2, 2) for a in SEGN for b in SEGN]
        tasks += [((a, b, c), N, 2) for a in SEGN for b in SEGN for c in SEGN]
    run.log(f"{len(tasks)} partitions, sequences <= {N} segments")
    run.merge(par.pmap(_work, tasks, seed=run.seed))
    kmax = 40 if q else 130
    run.log(f"run-length sweep: k = 1..{kmax}")
    run.merge(par.pmap(_work_runs, [(list(range(1, kmax + 1))[i::16],) for i in range(16)], seed=run.seed))
    run.merge(par.pmap(_work_containers, [0], seed=run.seed))
    run.merge(par.pmap(_work_manycalls, [(n,) for n in (1, 9, 25, 26, 100, 130, 257, 999, 1000, 1001, 1100, 2049, 3000)], seed=run.seed))
    tot = run.total
    tot.sample({"segments": ["Fbad", "R", "Fp"], "readers": ["H", "P"], "protocol": "payload", "chunking": "cut@20", "expected_queue": "payload of R only (P1 reader selected in the chunk where R completes)"})
    run.bounds = {"many_calls": "1..3000 data_received() calls of 2-3 bytes of noise before a clean stream, 5 candidate lists", "run_lengths": f"k = 1..{kmax} invalid (or valid) messages in a row around valid ones, 9 stream families x 4 candidate lists x 2 classes x 4 chunkings", "segments": f"<= {N}", "candidate_lists": [list(s) for s in SPECS], "pairs_of_cuts": "single segments" if q else "sequences of <= 2 segments (<=120 B)"}
    run.assumptions = ["the expected queue is computed from fresh real reader instances fed the same chunks (the property is relative to the readers' own output)",
                       "HDLC candidates use abort detection on; 'Hs' = octet stuffing"]
    ex = tot.c.get("executions", 0)
    return run.finish(states=tot.c.get("nontrivial", 0), transitions=ex, traces=ex, evaluations=ex, distinct_nontrivial=tot.c.get("nontrivial", 0))
