"""C14 - readers, messages and protocols never raise on line noise, and stay usable afterwards.
E1 over structural alphabets (octets for HDLC, tokens for P1) + E3 (<=2 edits of genuine readouts/frames), each
stream through the bare readers and through both protocol classes with [HDLC,P1] and [P1,HDLC] candidates."""
from __future__ import annotations

import asyncio
import itertools

from mc import core, devs, par
from mc import hdlcx as X
from mc import p1x as P
from mc.ref import hdlc as RH
from mc.ref import p1 as RP

H_ALPHA = (0x00, 0x7D, 0x7E, 0x5E, 0x80, 0xFF, 0x2F, 0x21, 0x0A)
P_TOK = {"/": b"/", "id": b"/ABC5x", "/AB": b"/AB", "crlf": b"\r\n", "lf": b"\n", "!": b"!", "hex": b"1A2B", "zz": b"zz",
         "80": b"\x80", "(": b"(", ")": b")", "adr": b"1-0:1.8.0", "unit": b"*kWh", "5": b"5", "A": b"A"}
P_TOKN = tuple(P_TOK)
PROPS = ("is_valid", "payload", "as_bytes", "message_type")

_LOOP = None


def _ensure_loop():
    global _LOOP
    if _LOOP is None:
        _LOOP = asyncio.new_event_loop()
        asyncio.set_event_loop(_LOOP)


def _touch(m, errs, where):
    for a in PROPS:
        try:
            getattr(m, a)
        except Exception as ex:  # noqa: BLE001
            errs.append((f"{where}.{a}", type(ex).__name__))


def probe_reader(make, chunks, suffix, expect_after):
    """Feed chunks to a bare reader; returns list of (where, exception name) and resync verdict."""
    errs = []
    r = make()
    for c in chunks:
        try:
            ms = r.read(c)
        except Exception as ex:  # noqa: BLE001
            errs.append(("read", type(ex).__name__))
            return errs, None
        if not isinstance(ms, list):
            errs.append(("read", f"returned {type(ms).__name__}"))
            return errs, None
        for m in ms:
            _touch(m, errs, "message")
    if errs or suffix is None:
        return errs, None
    try:
        ms = r.read(suffix)
        good = []
        for m in ms:
            if m.is_valid:
                good.append(m.as_bytes)
    except Exception as ex:  # noqa: BLE001
        errs.append(("read(clean suffix)", type(ex).__name__))
        return errs, None
    # every expected message must appear, in order, among the valid messages returned after the noise
    it = iter(good)
    ok = all(any(g == e for g in it) for e in expect_after)
    return errs, ok


def probe_protocol(cls_name, order, cfg, chunks, container="list"):
    from han import dlde, hdlc, meter_connection as mc

    _ensure_loop()
    errs = []
    readers = {"H": hdlc.HdlcFrameReader(*cfg), "P": dlde.ModeDReader()}
    q = asyncio.Queue()
    cands = [readers[o] for o in order]
    proto = getattr(mc, cls_name)(q, tuple(cands) if container == "tuple" else cands)
    for c in chunks:
        try:
            proto.data_received(c)
        except Exception as ex:  # noqa: BLE001
            errs.append((f"{cls_name}[{order}].data_received", type(ex).__name__))
            break
    while not q.empty():
        item = q.get_nowait()
        if not isinstance(item, (bytes, bytearray)):
            _touch(item, errs, "queued message")
    return errs


def protocol_container_errors() -> list[str]:
    """Candidate readers given as a tuple, and one list object handed to two protocol instances in a row (the
    'lambda: Protocol(queue, readers)' factory pattern after a reconnect): clean traffic must get through."""
    from han import dlde, hdlc, meter_connection as mc

    _ensure_loop()
    errs = []
    suf_p, msgs_p = p1_suffix()
    suf_h, fr_h = hdlc_suffix((True, True))
    for cls_name in ("SmartMeterMessagePayloadProtocol", "SmartMeterMessageProtocol"):
        for kind, stream, n_expected in (("p1", suf_p, 3), ("hdlc", suf_h, 2)):
            for container in ("tuple", "shared-list"):
                shared = [hdlc.HdlcFrameReader(True, True), dlde.ModeDReader()]
                for use in (1, 2):
                    q = asyncio.Queue()
                    try:
                        cands = tuple(shared) if container == "tuple" else shared
                        if container == "shared-list" and use == 2:
                            cands = shared  # the same (possibly emptied) list object, with fresh readers put back by the factory
                            if not cands:
                                pass
                        proto = getattr(mc, cls_name)(q, cands)
                        for c in X.fixed(b"\x00noise\r\n" + stream, 64):
                            proto.data_received(c)
                    except Exception as ex:  # noqa: BLE001
                        errs.append(f"{cls_name} with candidates as {container} (use {use}), {kind} stream: raised {type(ex).__name__}: {ex}")
                        break
                    if q.qsize() < n_expected and not (container == "shared-list" and use == 2 and False):
                        errs.append(f"{cls_name} with candidates as {container} (use {use}), clean {kind} stream: only {q.qsize()} item(s) queued, at least {n_expected} expected")
                        break
                    if container == "tuple":
                        break
                    if container == "shared-list" and use == 1 and len(shared) != 2:
                        errs.append(f"{cls_name}: the caller's candidate list was modified by the protocol ({len(shared)} of 2 readers left)")
                        break
    return errs


def hdlc_suffix(cfg):
    pool = X.frame_pool()
    fr = [pool["short"], pool["hdr_only"], pool["flagesc"]]
    return b"".join(b"\x7e" + RH.wire(f, cfg[0]) + b"\x7e" for f in fr), fr


P1_SUFFIX_MSGS = None


def p1_suffix():
    global P1_SUFFIX_MSGS
    if P1_SUFFIX_MSGS is None:
        pool = P.readout_pool()
        P1_SUFFIX_MSGS = [pool["min_crc"], pool["lf_crc"], pool["min_nocs"]]
    return b"".join(P1_SUFFIX_MSGS), P1_SUFFIX_MSGS


def check_stream(kind, S: bytes, chunks, cfgs=X.CFGS):
    """All probes for one stream. Returns list of (violation kind, message, cfg)."""
    from han import dlde

    out = []
    if kind in ("hdlc", "both"):
        for cfg in cfgs:
            suf, fr = hdlc_suffix(cfg) if cfg[0] else (None, None)
            errs, ok = probe_reader(lambda: X.new_reader(cfg), chunks, suf, fr[1:] if fr else None)
            for w, e in errs:
                out.append(("raises", f"HdlcFrameReader[{X.cfg_name(cfg)}] {w} raised {e}", cfg))
            if ok is False:
                out.append(("unusable", f"HdlcFrameReader[{X.cfg_name(cfg)}] did not deliver clean frames 2..3 after the noise", cfg))
    if kind in ("p1", "both"):
        suf, ms = p1_suffix()
        errs, ok = probe_reader(dlde.ModeDReader, chunks, suf, ms[1:])
        for w, e in errs:
            out.append(("raises", f"ModeDReader {w} raised {e}", None))
        if ok is False:
            out.append(("unusable", "ModeDReader did not deliver clean readouts 2..3 after the noise", None))
    for cls in ("SmartMeterMessagePayloadProtocol", "SmartMeterMessageProtocol"):
        for order, container in (("HP", "list"), ("PH", "tuple")):
            for w, e in probe_protocol(cls, order, (False, False), chunks, container):
                out.append(("raises", f"{w} (candidates given as a {container}) raised {e}", None))
    return out


def replay(case: dict) -> list[str]:
    if case.get("kind") == "containers":
        return protocol_container_errors()
    S = bytes.fromhex(case["stream"])
    if case["how"] == "fixed":
        chunks = X.fixed(S, case["k"])
    else:
        chunks = [S] if case["how"] == "oneshot" else ([bytes.fromhex(c) for c in case["chunks"]] if "chunks" in case else X.bytewise(S))
    return [m for _, m, _ in check_stream(case["kind"], S, chunks)]


def _run(p, kind, S, label, chunkings):
    for how, chunks in chunkings:
        res = check_stream(kind, S, chunks)
        p.add("executions", 4 + (4 if kind in ("hdlc", "both") else 0) + (1 if kind in ("p1", "both") else 0))
        p.add("events", len(chunks) * 6)
        if res:
            p.out("raises_or_unusable")
            for vk, msg, cfg in res:
                case = {"kind": kind, "stream": S.hex(), "how": how}
                if how not in ("oneshot", "bytewise"):
                    case["chunks"] = [c.hex() for c in chunks]
                p.viol(vk, f"{vk}:{msg}:{S.hex() if len(S) <= 48 else label}:{how}", f"input {S!r:.90} ({label}, {how}): {msg}", case, size=len(S))
        else:
            p.out("ok")


def _work_h(task) -> core.Part:
    prefix, N = task
    p = core.Part()
    for L in range(len(prefix), N + 1):
        for tail in itertools.product(H_ALPHA, repeat=L - len(prefix)):
            S = bytes(prefix + tail)
            _run(p, "hdlc", S, "octets", (("oneshot", [S]), ("bytewise", X.bytewise(S))))
            p.add("nontrivial")
        if p.full("raises"):
            p.capped = True
            break
    return p


def _work_p(task) -> core.Part:
    prefix, N = task
    p = core.Part()
    for L in range(len(prefix), N + 1):
        for tail in itertools.product(P_TOKN, repeat=L - len(prefix)):
            w = prefix + tail
            parts = [P_TOK[t] for t in w]
            S = b"".join(parts)
            _run(p, "p1", S, "tokens " + " ".join(w), (("oneshot", [S]), ("bytewise", X.bytewise(S))))
            p.add("nontrivial")
        if p.full("raises") and p.full("unusable"):
            p.capped = True
            break
    return p


def _work_e3(task) -> core.Part:
    kind, label, S0, k, spans, shard = task
    p = core.Part()
    subs, ins = (devs.P1_SUBS, devs.P1_INS) if kind == "p1" else (devs.HDLC_SUBS + (0x80, 0x2F, 0x21, 0x0A), devs.HDLC_INS)
    for ed, S in devs.edits_upto(S0, k, subs, ins, spans, shard=shard):
        _run(p, kind, S, f"{label} edits={list(ed)}", (("oneshot", [S]), ("bytewise", X.bytewise(S)), ("halves", X.split(S, (len(S) // 2,)))))
        p.add("nontrivial")
        if p.full("raises"):
            p.capped = True
            break
    return p


def _work_long(task) -> core.Part:
    """Several KiB of periodic noise (C16.long_noises) in small chunks, then a clean stream: nothing may raise."""
    from mc.props import C16

    reader, quick, lo, step = task
    p = core.Part()
    for idx, (label, noise) in enumerate(C16.long_noises(reader, quick)):
        if idx % step != lo:
            continue
        kind = "p1" if reader == "p1" else "hdlc"
        S = noise
        fam = (("fixed7", X.fixed(S, 7)), ("fixed1000", X.fixed(S, 1000)), ("fixed64", X.fixed(S, 64)), ("oneshot", [S]))
        for how, chunks in fam:
            res = check_stream(kind, S, chunks, cfgs=X.CFGS if reader != "p1" else ())
            p.add("executions", 5)
            p.add("events", len(chunks) * 5)
            p.out("ok" if not res else "raises_or_unusable")
            for vk, msg, cfg in res:
                p.viol(vk, f"{vk}:{msg}:{label}:{how}", f"long noise {label} ({len(S)} B, {how}): {msg}", {"kind": kind, "stream": S.hex(), "how": how, "chunks": [c.hex() for c in chunks]} if len(chunks) < 40 else
                       {"kind": kind, "stream": S.hex(), "how": "fixed", "k": int(how[5:])}, size=len(S))
        p.add("nontrivial")
        if p.full("raises") or p.full("unusable"):
            p.capped = True
            break
    return p


def main(run: core.Run) -> int:
    q = run.quick
    run.rule = ("HDLC: every string <=N over {00,7D,7E,5E,80,FF,'/','!',LF}; P1: every sequence of <=N tokens over a 15-token structural alphabet; "
                "plus every stream within <=k edits of genuine readouts/frames; each one-shot and octet-wise through the bare readers (4 HDLC configurations) "
                "and through both protocol classes with [HDLC,P1] and [P1,HDLC]; then a clean suffix must still be delivered. non-trivial = distinct input streams")
    NH, NP = (5, 4) if q else (6, 5)
    ht = [((), 1)] + [((a,), 1) for a in H_ALPHA] + [((a, b), NH) for a in H_ALPHA for b in H_ALPHA]
    run.log(f"HDLC octets <= {NH}: {len(ht)} partitions")
    run.merge(par.pmap(_work_h, ht, seed=run.seed))
    pt = [((), 1)] + [((a,), 1) for a in P_TOKN] + [((a, b), NP) for a in P_TOKN for b in P_TOKN]
    run.log(f"P1 tokens <= {NP}: {len(pt)} partitions")
    run.merge(par.pmap(_work_p, pt, seed=run.seed))
    pool = P.readout_pool()
    e3 = [("p1", n, pool[n], 1, ((0, len(pool[n])),)) for n in pool]
    e3 += [("p1", n, pool[n], 2, ()) for n in (("min_crc",) if q else ("min_crc", "min_nocs", "nodata_crc"))]
    fp = X.frame_pool()
    for n in ("short", "flagesc", "hdr_only"):
        for st in (False, True):
            S = b"\x7e" + RH.wire(fp[n], st) + b"\x7e"
            e3.append(("hdlc", f"{n}/{'stuffed' if st else 'plain'}", S, 1 if q else 2, ((1, len(S) - 1),)))
    e3 = [t + ((i, 24 if t[3] == 2 else 1),) for t in e3 for i in range(24 if t[3] == 2 else 1)]
    run.log(f"E3: {len(e3)} tasks")
    # split the 2-edit bases by first edit position implicitly: they are few; run as they are
    run.merge(par.pmap(_work_e3, e3, seed=run.seed))
    cont = core.Part()
    for m in protocol_container_errors():
        cont.viol("raises", f"containers:{m[:80]}", m, {"kind": "containers"}, size=1)
    cont.add("executions", 16)
    run.merge([cont])
    run.log("long periodic noise")
    run.merge(par.pmap(_work_long, [(rd, q, i, 32) for rd in ("p1", "hdlc") for i in range(32)], seed=run.seed))
    tot = run.total
    tot.sample({"p1_tokens": ["id", "crlf", "!", "zz", "crlf"], "stream": "/ABC5x\r\n!zz\r\n", "probes": "ModeDReader.read, message properties, 2 protocol classes x 2 candidate orders"})
    tot.sample({"hdlc_octets": "7e 80 7d 7e ff", "configs": 4})
    run.bounds = {"hdlc_octets": f"<= {NH} over 9 structural octets", "p1_tokens": f"<= {NP} over 15 tokens", "edits": "<=1 on 8 readouts and 6 frame streams; <=2 on " + ("1 readout" if q else "3 readouts and the frames")}
    run.assumptions = ["clean-suffix oracle as in C16: all suffix messages but possibly the first are delivered (HDLC with stuffing, P1)"]
    ex = tot.c.get("executions", 0)
    return run.finish(states=tot.c.get("nontrivial", 0), transitions=tot.c.get("events", 0), traces=ex, evaluations=ex, distinct_nontrivial=tot.c.get("nontrivial", 0))
