"""C10 - COSEM date-time fields decode to the same instant the meter sent.  E5: full product of reduced field
alphabets + complete single-field sweeps, in each of the six syntactic positions where the decoders accept a date-time."""
from __future__ import annotations

import calendar
import itertools

from mc import core, cosemx, par
from mc.ref import cosem as RC

POSITIONS = ("apdu_tagged", "apdu_untagged", "aidon_clock", "kaifa_positional", "kaifa_obis", "kamstrup_clock")
OTHER = (2021, 3, 4, 5, 6, 7, 0xFF, None, 0, 0xFF)  # a different date-time used for the position that must lose


def _kaifa_vals(names, clk):
    v = {}
    for i, n in enumerate(names):
        v[n] = {"list_ver_id": "KFM_001", "meter_id": "6970631402614476", "meter_type": "MA304H3E"}.get(n, 1000 + i)
    if "meter_datetime" in names:
        v["meter_datetime"] = clk
    return v


def _kam_vals(names, clk):
    v = {}
    for i, n in enumerate(names):
        v[n] = {"meter_id": "5706567000000000", "meter_type": "6841121BN243101040"}.get(n, 200 + i)
    if "meter_datetime" in names:
        v["meter_datetime"] = clk
    return v


def messages_at(position: str, f):
    """[(label, decoder function, message bytes)] for the date-time fields f placed at the position."""
    from han import aidon, kaifa, kamstrup

    d = RC.dt12(*f)
    out = []
    if position == "apdu_tagged":
        body = RC.kaifa_body_positional(RC.KAIFA_LAYOUTS[1], {"active_power_import": 1320})
        out.append(("kaifa frame list1", kaifa.decode_frame_content, RC.llc(body, b"\x09\x0c" + d)))
        names = RC.KAIFA_LAYOUTS[9]
        out.append(("kaifa frame list2", kaifa.decode_frame_content, RC.llc(RC.kaifa_body_positional(names, _kaifa_vals(names, None)), b"\x09\x0c" + d)))
    elif position == "apdu_untagged":
        names = RC.KAM_L1_1
        body = RC.kam_body(names, _kam_vals(names, None))
        out.append(("kamstrup frame list1", kamstrup.decode_frame_content, RC.llc(body, b"\x0c" + d, b"\x00\x00\x00\x00")))
        names = RC.KAM_L2_3
        body = RC.kam_body(names, _kam_vals(names, OTHER))
        out.append(("kamstrup frame list2 (APDU wins over the list's clock)", kamstrup.decode_frame_content, RC.llc(body, b"\x0c" + d, b"\x00\x00\x00\x00")))
    elif position == "aidon_clock":
        items = [("1.0.1.7.0.255", ("num", "u32", 280, 0, 27)), ("0.0.1.0.0.255", ("dt", f))]
        body = RC.aidon_body(items)
        out.append(("aidon body", aidon.decode_notification_body, body))
        out.append(("aidon frame", aidon.decode_frame_content, RC.llc(body)))
    elif position == "kaifa_positional":
        for n in (14, 18):
            names = RC.KAIFA_LAYOUTS[n]
            body = RC.kaifa_body_positional(names, _kaifa_vals(names, f))
            out.append((f"kaifa body list3/{n}", kaifa.decode_notification_body, body))
            out.append((f"kaifa frame list3/{n} (list clock wins over APDU)", kaifa.decode_frame_content, RC.llc(body, b"\x09\x0c" + RC.dt12(*OTHER))))
    elif position == "kaifa_obis":
        names = [n for _, n in RC.KAIFA_SE]
        body = RC.kaifa_body_obis(_kaifa_vals(names, f))
        out.append(("kaifa SE body", kaifa.decode_notification_body, body))
        out.append(("kaifa SE frame", kaifa.decode_frame_content, RC.llc(body)))
    else:
        names = RC.KAM_L2_1
        body = RC.kam_body(names, _kam_vals(names, f))
        out.append(("kamstrup body list2", kamstrup.decode_notification_body, body))
    return out


def decode_at(position: str, f):
    """Returns list of (label, meter_datetime or exception, message) for the date-time fields f placed at the position."""
    res = []
    for label, fn, msg in messages_at(position, f):
        try:
            res.append((label, fn(msg).get("meter_datetime"), msg))
        except Exception as ex:  # noqa: BLE001
            res.append((label, ex, msg))
    return res


def check(position: str, f) -> list[str]:
    want = RC.exp_dt(*f)
    errs = []
    for label, got, msg in decode_at(position, f):
        if isinstance(got, Exception):
            errs.append(f"{label}: decoder raised {type(got).__name__}: {got} for date-time {RC.dt12(*f).hex()}")
        elif not RC.same_dt(got, want):
            errs.append(f"{label}: meter_datetime {got!r} (utcoffset {getattr(got, 'utcoffset', lambda: None)()}) != sent {want!r} for date-time octets {RC.dt12(*f).hex()}")
    return errs


def replay(case: dict) -> list[str]:
    core.set_ambient(False, bool(case.get("dst_zone")))
    try:
        for h in case.get("history", []):
            check(case["position"], tuple(h))
        return check(case["position"], tuple(case["fields"]))
    finally:
        core.set_ambient(False, False)


def switch_night(f) -> bool:
    """Civil times in the hours in which some zone changes to or from daylight saving time (a Sunday in March, October
    or November, 00:00..04:59): decoded in a UTC process and in a process whose zone has such a switch."""
    y, mo, d, h = f[:4]
    return mo in (3, 10, 11) and h <= 4 and 1 <= d <= calendar.monthrange(y, mo)[1] and calendar.weekday(y, mo, d) == 6


def _work(task) -> core.Part:
    position, fields_list = task
    p = core.Part()
    amb = dict(core.AMBIENT)
    for f in fields_list:
        zones = (False, True) if switch_night(f) else (amb["dst_zone"],)
        for zone in zones:
            core.set_ambient(amb["lowprec"], zone)
            e = check(position, f)
            p.add("evaluations")
            p.out("tz-aware" if f[7] is not None else "naive")
            if e:
                p.viol("datetime", f"datetime:{position}:{RC.dt12(*f).hex()}:{zone}", e[0] + (" (process zone CET/CEST)" if zone else " (process zone UTC)"),
                       {"position": position, "fields": list(f), "dst_zone": zone}, size=1)
        if p.full("datetime"):
            p.capped = True
            break
    core.set_ambient(amb["lowprec"], amb["dst_zone"])
    return p


def equal_instant_sequences():
    """Sequences of date-times that denote the SAME instant with different deviations (and equal civil fields with
    different deviations): == on aware datetimes cannot tell them apart, the decoded value must."""
    seqs = []
    for (h, mi) in ((12, 0), (0, 30), (23, 45)):
        for d1, d2 in ((0, -60), (-60, -120), (60, 0), (-120, 0), (720, -720), (0, None), (None, 0), (-60, -60)):
            base_min = h * 60 + mi

            def shifted(dev):
                # civil time such that the instant is base_min UTC: local = UTC - deviation
                loc = base_min - (dev or 0)
                day = 10
                if loc < 0:
                    loc += 1440
                    day = 9
                elif loc >= 1440:
                    loc -= 1440
                    day = 11
                return (2024, 3, day, loc // 60, loc % 60, 0, 0xFF, dev, 0, 0xFF)
            seqs.append([shifted(d1), shifted(d2), shifted(d1)])
            seqs.append([(2024, 3, 10, h, mi, 0, 0xFF, d1, 0, 0xFF), (2024, 3, 10, h, mi, 0, 0xFF, d2, 0, 0xFF)])
            seqs.append([(2024, 3, 10, h, mi, 0, 0, d1, 0, 0xFF), (2024, 3, 10, h, mi, 0, 0xFF, d1, 0, 0xFF)])
    return seqs


def _work_pairs(task) -> core.Part:
    position, = task
    p = core.Part()
    for seq in equal_instant_sequences():
        for f in seq:
            e = check(position, f)
            p.add("evaluations")
            if e:
                p.viol("datetime", f"datetime:seq:{position}:{[RC.dt12(*x).hex() for x in seq]}", f"after decoding {[RC.dt12(*x).hex() for x in seq[:seq.index(f)]]}: {e[0]}",
                       {"position": position, "fields": list(f), "history": [list(x) for x in seq[:seq.index(f)]]}, size=2)
    # the APDU header and the list clock of ONE message naming the same instant in different offsets
    from han import kaifa, kamstrup
    for seq in equal_instant_sequences():
        a, b = seq[0], seq[1]
        names = RC.KAIFA_LAYOUTS[14]
        body = RC.kaifa_body_positional(names, _kaifa_vals(names, b))
        for label, fn, msg, want in (("kaifa frame: APDU and list clock are the same instant in different offsets (list clock wins)", kaifa.decode_frame_content, RC.llc(body, b"\x09\x0c" + RC.dt12(*a)), b),
                                     ("kamstrup frame: APDU and list clock are the same instant in different offsets (APDU wins)", kamstrup.decode_frame_content,
                                      RC.llc(RC.kam_body(RC.KAM_L2_1, _kam_vals(RC.KAM_L2_1, b)), b"\x0c" + RC.dt12(*a), b"\x00\x00\x00\x00"), a)):
            p.add("evaluations")
            try:
                got = fn(msg).get("meter_datetime")
            except Exception as ex:  # noqa: BLE001
                got = ex
            if isinstance(got, Exception) or not RC.same_dt(got, RC.exp_dt(*want)):
                p.viol("datetime", f"datetime:twoclocks:{label[:12]}:{RC.dt12(*a).hex()}:{RC.dt12(*b).hex()}", f"{label}: APDU {RC.dt12(*a).hex()}, list clock {RC.dt12(*b).hex()}: meter_datetime {got!r}, expected {RC.exp_dt(*want)!r}",
                       {"position": "kaifa_positional", "fields": list(b), "history": [list(a)]}, size=2)
    return p


def product_fields():
    out = []
    for y in (1, 1999, 2000, 2024, 9999):
        for (mo, d) in ((1, 1), (2, 28), (2, 29), (6, 30), (12, 31)):
            if (mo, d) == (2, 29) and not calendar.isleap(y):
                continue
            for (h, mi, s) in ((0, 0, 0), (12, 30, 1), (23, 59, 59)):
                for hund in (0, 1, 99, 0xFF):
                    for dev in (None, -720, -60, -1, 0, 1, 120, 720):
                        for st in (0x00, 0x01, 0x80, 0x0F, 0xFF):
                            for dow in (1, 7, 0xFF):
                                out.append((y, mo, d, h, mi, s, hund, dev, st, dow))
    return out


def sweep_fields(quick: bool, seed: int):
    out = []
    base = (2022, 6, 15, 10, 20, 30, 50, 60, 0, 3)
    devs = [None] + list(range(-720, 721))
    if quick:
        out += [base[:7] + (dv, 0, 3) for dv in devs]
        out += [base[:7] + (-120, st, 3) for st in range(256)]
        out += [base[:7] + (None, st, 3) for st in range(256)]
    else:
        out += [base[:7] + (dv, st, 3) for dv in devs for st in range(256)]
    out += [base[:6] + (hu, 60, 0, 3) for hu in list(range(100)) + [0xFF]]
    for y in (2023, 2024):
        for mo in range(1, 13):
            for d in range(1, calendar.monthrange(y, mo)[1] + 1):
                out.append((y, mo, d, 1, 2, 3, 0xFF, None, 0, 0xFF))
    # every 29 February of every leap year 1..9999, and the month ends of century and other special years
    for y in range(4, 10000, 4):
        if calendar.isleap(y):
            out.append((y, 2, 29, 23, 59, 59, 0xFF, -60, 0, 0xFF))
    for y in sorted(set(list(range(100, 10000, 100)) + [1, 2, 3, 4, 5, 1582, 1583, 1899, 1900, 1901, 1970, 1999, 2038, 2100, 9998, 9999])):
        for mo in range(1, 13):
            out.append((y, mo, calendar.monthrange(y, mo)[1], 0, 0, 0, 0xFF, None, 0, 0xFF))
            out.append((y, mo, 1, 0, 0, 0, 0xFF, None, 0, 0xFF))
    # the nights on which European / US zones change to and from daylight saving time, every half hour 00:00..04:00
    for y in (2021, 2024, 2026):
        days = []
        for mo, last in ((3, True), (10, True), (3, False), (11, False)):
            cal = calendar.monthcalendar(y, mo)
            suns = [w[6] for w in cal if w[6]]
            days.append((mo, suns[-1] if last else (suns[1] if mo == 3 else suns[0])))
        for mo, d in days:
            for half in range(0, 9):
                for dev in (None, -60, -120, 0):
                    out.append((y, mo, d, half // 2, 30 * (half % 2), 15, 29, dev, 0, 0xFF))
    step = 61 if quick else 1
    for t in range(0, 86400, step):
        out.append((2022, 6, 15, t // 3600, t // 60 % 60, t % 60, 0xFF, 120, 0, 0xFF))
    out += [base[:9] + (dw,) for dw in range(256)]
    import random
    rnd = random.Random(seed)
    for _ in range(50):
        y = rnd.randint(1, 9999)
        mo = rnd.randint(1, 12)
        out.append((y, mo, rnd.randint(1, calendar.monthrange(y, mo)[1]), rnd.randint(0, 23), rnd.randint(0, 59), rnd.randint(0, 59),
                    rnd.choice([0xFF] + list(range(100))), rnd.choice([None] + list(range(-720, 721))), rnd.randrange(256), rnd.randrange(256)))
    return out


def _work_calendar(task) -> core.Part:
    """Thorough tier: every valid calendar date of the years in this task, in one position (the date-time grammar is shared)."""
    y0, y1 = task
    p = core.Part()
    for y in range(y0, y1):
        for mo in range(1, 13):
            for d in range(1, calendar.monthrange(y, mo)[1] + 1):
                f = (y, mo, d, 12, 0, 0, 0xFF, None, 0, 0xFF)
                e = check("kamstrup_clock", f)
                p.add("evaluations")
                if e:
                    p.viol("datetime", f"datetime:kamstrup_clock:{RC.dt12(*f).hex()}", e[0], {"position": "kamstrup_clock", "fields": list(f)}, size=1)
                    if p.full("datetime"):
                        return p
    return p


def main(run: core.Run) -> int:
    q = run.quick
    run.rule = ("date-time octets from the full product of reduced field alphabets (year x month/day x time x hundredths x deviation x status x day-of-week) and complete single-field sweeps "
                "(all 1441 deviations + unspecified, all 256 status octets, all 101 hundredths, every day of 2023/2024, times of day, all 256 day-of-week values), placed in each of the 6 syntactic positions; "
                "non-trivial = distinct (position, date-time) pairs")
    nb = cosemx.bind_fixtures()
    run.notes.append(f"reference encoders reproduce {nb} captured notification bodies byte for byte")
    prod = product_fields()
    sw = sweep_fields(q, run.seed)
    allf = prod + sw
    tasks = []
    for pos in POSITIONS:
        fl = allf if (not q or pos in POSITIONS) else prod
        for i in range(0, len(fl), 1500):
            tasks.append((pos, fl[i:i + 1500]))
    run.log(f"{len(prod)} product + {len(sw)} sweep date-times x {len(POSITIONS)} positions = {len(tasks)} partitions")
    run.merge(par.pmap(_work, tasks, seed=run.seed))
    run.merge(par.pmap(_work_pairs, [(pos,) for pos in POSITIONS], seed=run.seed))
    if not q:
        run.log("complete calendar 1..9999 in one position")
        run.merge(par.pmap(_work_calendar, [(y, min(y + 50, 10000)) for y in range(1, 10000, 50)], seed=run.seed))
    tot = run.total
    tot.sample({"position": "apdu_tagged", "octets": RC.dt12(2024, 2, 29, 23, 59, 59, 99, -720, 0x80, 7).hex(), "expected": str(RC.exp_dt(2024, 2, 29, 23, 59, 59, 99, -720, 0x80, 7))})
    tot.sample({"position": "kamstrup_clock", "octets": RC.dt12(1, 1, 1, 0, 0, 0, 0xFF, None, 0xFF, 0xFF).hex(), "expected": str(RC.exp_dt(1, 1, 1, 0, 0, 0))})
    run.bounds = {"product": len(prod), "sweeps": len(sw), "positions": list(POSITIONS), "equal_instant_sequences": "consecutive date-times naming one instant with different deviations (and APDU vs list clock of one message), 72 sequences x 6 positions", "leap_days": "every 29 February of years 4..9996; first/last day of every month of all century years",
                  "complete_calendar": "thorough: every valid date of years 1..9999 in the Kamstrup clock position"}
    run.assumptions = ["reference encoders mc/ref/cosem.py (bound to the fixtures)", "fields outside the alphabets are covered by single-field sweeps only (no full cross product)"]
    ev = tot.c.get("evaluations", 0)
    return run.finish(states=ev, transitions=ev, traces=ev, evaluations=ev, distinct_nontrivial=ev)
