"""C03 - FCS-16 equals RFC 1662 for every input.  Complete enumeration of the step function's domain
(2^16 registers x 2^8 octets) through the public incremental API, plus windows of compute_checksum."""
from __future__ import annotations

import itertools
import random

from mc import core, par
from mc.ref import fcs as R


def _fcs_cls():
    from han import fastframecheck

    return fastframecheck.FastFrameCheckSequence16


def check_message(msg: bytes) -> list[str]:
    """Feed msg through update(); compare every intermediate result with the bit-serial reference."""
    F = _fcs_cls()
    f = F()
    reg = 0xFFFF
    errs = []
    for i, b in enumerate(msg):
        ret = f.update(b)
        reg = R.fcs_step(reg, b)
        if ret != reg:
            errs.append(f"update() returned {ret!r} after octet {i}, reference register {reg:#06x}")
            break
    if f.checksum != reg ^ 0xFFFF:
        errs.append(f"checksum {f.checksum!r} != reference {reg ^ 0xFFFF:#06x}")
    good = len(msg) >= 2 and R.fcs_trailer(msg[:-2]) == bytes(msg[-2:])
    if bool(f.is_good) != good or not isinstance(f.is_good, bool):
        errs.append(f"is_good {f.is_good!r}, message ends with its FCS: {good}")
    return errs


def check_window(data: bytes, start: int, length: int) -> list[str]:
    F = _fcs_cls()
    got = F.compute_checksum(data, start, length)
    exp = R.fcs16(data[start:start + length])
    errs = []
    if got != exp:
        errs.append(f"compute_checksum(..., {start}, {length}) = {got!r}, reference {exp:#06x}")
    f = F()
    for b in data[start:start + length]:
        f.update(b)
    if f.checksum != got:
        errs.append(f"compute_checksum {got!r} != incremental checksum {f.checksum!r}")
    return errs


def replay(case: dict) -> list[str]:
    if case["kind"] == "message":
        return check_message(bytes.fromhex(case["msg"]))
    if case.get("history"):
        # replay files of the history phases (re-use of objects, failing calls, nested calls) re-run the whole phase
        pp = _work_long(("reuse", case.get("seed", 0)))
        return [v["what"] for v in pp.v]
    return check_window(bytes.fromhex(case["data"]), case["start"], case["length"])


def _work_step(b0: int) -> core.Part:
    """All 65 536 three-octet messages starting with b0 (and the 4-octet residue messages)."""
    F = _fcs_cls()
    p = core.Part()
    step = R.fcs_step
    r1 = step(0xFFFF, b0)
    f1 = R.fcs16(bytes([b0]))
    t1 = (f1 & 0xFF, f1 >> 8)
    regs = set()
    n = 0
    ngood = 0
    for b1 in range(256):
        r2 = step(r1, b1)
        regs.add(r2)
        for b2 in range(256):
            f = F()
            f.update(b0)
            f.update(b1)
            ret = f.update(b2)
            r3 = step(r2, b2)
            good = (b1, b2) == t1
            n += 1
            if ret != r3 or f.checksum != r3 ^ 0xFFFF or f.is_good is not good:
                if not p.full("step"):
                    msg = bytes((b0, b1, b2))
                    p.viol("step", f"step:{msg.hex()}", f"message {msg.hex()}: " + "; ".join(check_message(msg)),
                           {"kind": "message", "msg": msg.hex()}, size=3)
                else:
                    p.vk["step"] += 1
            if good:
                ngood += 1
        # residue over 4-octet messages: exact trailer accepted, every single-bit-flipped trailer rejected
        m2 = bytes((b0, b1))
        tr = R.fcs_trailer(m2)
        for flip in range(-1, 16):
            t = bytearray(tr)
            if flip >= 0:
                t[flip >> 3] ^= 1 << (flip & 7)
            f = F()
            for b in m2 + t:
                f.update(b)
            n += 1
            if f.is_good is not (flip < 0):
                msg = m2 + bytes(t)
                p.viol("residue", f"residue:{msg.hex()}", f"message {msg.hex()}: is_good={f.is_good!r}",
                       {"kind": "message", "msg": msg.hex()}, size=4)
    p.add("messages", n)
    p.add("step_pairs", 65536)
    p.add("good_messages", ngood + 256)
    p.d = regs
    p.out("is_good_true", ngood + 256)
    p.out("is_good_false", n - ngood - 256)
    return p


def _work_cc(task) -> core.Part:
    """compute_checksum over complete small domains."""
    kind, arg = task
    F = _fcs_cls()
    p = core.Part()
    if kind == "two":  # all two-octet data with first octet arg, whole window
        for b1 in range(256):
            d = bytes((arg, b1))
            if F.compute_checksum(d, 0, 2) != R.fcs16(d):
                p.viol("window", f"window:{d.hex()}:0:2", f"compute_checksum({d.hex()},0,2) wrong",
                       {"kind": "window", "data": d.hex(), "start": 0, "length": 2}, size=2)
            p.add("windows")
    elif kind == "three":
        for b1 in range(256):
            r2 = R.fcs_reg(bytes((arg, b1)))
            for b2 in range(256):
                d = bytes((arg, b1, b2))
                if F.compute_checksum(d, 0, 3) != R.fcs_step(r2, b2) ^ 0xFFFF:
                    if not p.full("window"):
                        p.viol("window", f"window:{d.hex()}:0:3", f"compute_checksum({d.hex()},0,3) wrong",
                               {"kind": "window", "data": d.hex(), "start": 0, "length": 3}, size=3)
                p.add("windows")
    else:  # every (start, length) window of every string over a 4-symbol alphabet, strings given
        for d in arg:
            for start in range(len(d) + 1):
                for length in range(len(d) - start + 1):
                    e = check_window(d, start, length)
                    p.add("windows")
                    if e:
                        p.viol("window", f"window:{d.hex()}:{start}:{length}", f"data {d.hex()}: {e[0]}",
                               {"kind": "window", "data": d.hex(), "start": start, "length": length},
                               size=len(d))
                        if p.full("window"):
                            return p
    return p


def _work_long(task) -> core.Part:
    """Long buffers: windows whose start/length straddle block-size-like thresholds (powers of two, 2047/2048/2049),
    and long incremental runs (a hidden counter or block logic would not show in 3-octet messages)."""
    kind, seed = task
    F = _fcs_cls()
    p = core.Part()
    rnd = random.Random(1000 + seed)
    if kind == "windows":
        n = 9000
        bufs = [bytes(rnd.randrange(256) for _ in range(n)), bytes((i * 7 + i // 251) & 0xFF for i in range(n))]
        starts = (0, 1, 2, 3, 7, 64, 137, 255, 256, 2047, 2048, 2049, 4096)
        lens = sorted(set([0, 1, 2, 3, 255, 256, 257, 511, 512, 513, 1023, 1024, 1025, 4095, 4096, 4097, 6000, 8191, 8192] + list(range(2044, 2054)) + list(range(4094, 4102))))
        for d in bufs:
            pref = [0xFFFF]
            for b in d:
                pref.append(R.fcs_step_fast(pref[-1], b))
            for st in starts:
                for ln in lens:
                    if st + ln > n:
                        continue
                    got = F.compute_checksum(d, st, ln)
                    exp = R.fcs16_fast(d[st:st + ln])
                    p.add("windows")
                    if got != exp:
                        p.viol("window", f"window:long:{seed}:{st}:{ln}", f"compute_checksum(<{n} octets>, {st}, {ln}) = {got:#06x}, reference {exp:#06x}",
                               {"kind": "window", "data": d.hex(), "start": st, "length": ln}, size=ln)
                        if p.full("window"):
                            return p
    elif kind == "special":
        # windows in which the running register takes a special value (0000, FFFF, F0B8, 0001, 8000) right before the
        # last one, two or three octets - the hand-over points of any multi-octet / blocked implementation
        inv = {}
        for x in range(256):
            for y in range(256):
                inv.setdefault(R.fcs_step_fast(R.fcs_step_fast(0, x), y), (x, y))
        for total in list(range(3, 80)) + [255, 256, 257, 1023, 1024, 1025, 2049, 2050, 2051]:
            for tail in (1, 2, 3):
                if total - tail - 2 < 0:
                    continue
                P = bytes(rnd.randrange(256) for _ in range(total - tail - 2))
                r = R.fcs_reg(P) if len(P) < 300 else None
                if r is None:
                    r = 0xFFFF
                    for b_ in P:
                        r = R.fcs_step_fast(r, b_)
                for target in (0x0000, 0xFFFF, 0xF0B8, 0x0001, 0x8000):
                    x, y = inv[target]
                    mid = bytes(((r & 0xFF) ^ x, (r >> 8) ^ y))
                    for last in (b"\x00", b"\x2a", b"\xff\x7e", b"\x01\x02\x03"):
                        if len(last) != tail:
                            continue
                        d = P + mid + last
                        for typ in (bytes, bytearray):
                            got = F.compute_checksum(typ(d), 0, len(d))
                            exp = R.fcs16_fast(d)
                            p.add("windows")
                            if got != exp:
                                p.viol("window", f"window:special:{len(d)}:{target:04x}:{tail}", f"compute_checksum of {len(d)} octets whose running register is {target:#06x} before the last {tail} octet(s) = {got:#06x}, reference {exp:#06x}",
                                       {"kind": "window", "data": d.hex(), "start": 0, "length": len(d)}, size=len(d))
                        f = F()
                        for b_ in d:
                            f.update(b_)
                        if f.checksum != R.fcs16_fast(d):
                            p.viol("long_run", f"special:{len(d)}:{target:04x}", f"incremental checksum wrong for {len(d)} octets with register {target:#06x} near the end", {"kind": "message", "msg": d.hex()}, size=len(d))
            if p.full("window"):
                return p
    elif kind == "reuse":
        # the same buffer object passed again and again (bytes and bytearray), windows in non-monotonic order, the
        # bytearray modified in place between calls: a static function must not remember anything about earlier calls
        buf = bytearray(rnd.randrange(256) for _ in range(48))
        frozen = bytes(buf)
        wins = [(st, ln) for st in (0, 1, 5, 17) for ln in (0, 1, 2, 9, 16, 30) if st + ln <= 48]
        def one(obj, name, st, ln, what):
            got = F.compute_checksum(obj, st, ln)
            exp = R.fcs16_fast(bytes(obj[st:st + ln]))
            p.add("windows")
            if got != exp:
                p.viol("window", f"window:reuse:{name}:{what}:{st}:{ln}", f"compute_checksum on a re-used {name} object ({what}), window ({st}, {ln}) = {got:#06x}, reference {exp:#06x}",
                       {"kind": "window", "data": bytes(obj).hex(), "start": st, "length": ln, "history": True, "seed": seed}, size=ln)

        for rep in range(6):
            order = wins if rep % 2 == 0 else list(reversed(wins))
            for st, ln in order:  # same immutable object, windows in changing order
                one(frozen, "bytes", st, ln, f"round {rep}")
            for st, ln in order:  # same mutable object: call, change in place, call again (same and larger window)
                one(buf, "bytearray", st, ln, f"round {rep}")
                if ln:
                    buf[st + (rep * 5) % ln] ^= 1 + rep
                one(buf, "bytearray", st, ln, f"round {rep}, after an in-place change inside the window")
                if st + ln + 3 <= 48:
                    buf[st] ^= 0x40
                    one(buf, "bytearray", st, ln + 3, f"round {rep}, window grown by 3 after an in-place change")
            if p.full("window"):
                return p
        # a call that fails (window reaching beyond the buffer, an argument of the wrong kind) must leave nothing behind:
        # every window is computed again right after each kind of failing call
        def failing_calls():
            yield "window beyond the end of the buffer", lambda: F.compute_checksum(frozen, 40, 20)
            yield "start beyond the end of the buffer", lambda: F.compute_checksum(frozen, 48, 1)
            yield "text instead of bytes", lambda: F.compute_checksum("0123456789", 2, 5)
            yield "a list holding a non-integer", lambda: F.compute_checksum([1, 2, None, 4], 0, 4)
            yield "update() with a non-integer", lambda: F().update("x")
        for label, bad in failing_calls():
            for st, ln in wins:
                try:
                    bad()
                except Exception:  # noqa: BLE001  (how it fails is not the property's business)
                    pass
                one(frozen, "bytes", st, ln, f"right after a failing call ({label})")
                f = F()
                for b_ in frozen[st:st + ln]:
                    f.update(b_)
                if f.checksum != R.fcs16_fast(frozen[st:st + ln]):
                    p.viol("window", f"window:afterfail:inc:{label}:{st}:{ln}", f"incremental checksum right after a failing call ({label}) wrong for window ({st}, {ln})", {"kind": "window", "data": frozen.hex(), "start": st, "length": ln, "history": True, "seed": seed}, size=ln)
        # re-entrancy: compute_checksum is a pure function.  The data argument is a bytes object whose item access runs a
        # complete second computation (on another buffer) at access number k - every k: all interleavings of two calls
        # with one preemption at item-access granularity
        other = bytes(rnd.randrange(256) for _ in range(9))
        other_exp = R.fcs16_fast(other)

        class Preempting(bytes):
            at = -1
            n = 0
            inner = None

            def __getitem__(self, i):
                if isinstance(i, int):
                    if Preempting.n == Preempting.at:
                        Preempting.n += 1
                        Preempting.inner = F.compute_checksum(other, 0, len(other))
                    else:
                        Preempting.n += 1
                return bytes.__getitem__(self, i)

        outer = Preempting(frozen[:24])
        outer_exp = R.fcs16_fast(frozen[:24])
        for k in range(0, 25):
            Preempting.at, Preempting.n, Preempting.inner = k, 0, None
            got = F.compute_checksum(outer, 0, 24)
            p.add("windows")
            p.add("interleavings")
            if got != outer_exp or (Preempting.inner is not None and Preempting.inner != other_exp):
                p.viol("window", f"window:reentrant:{k}", f"a second compute_checksum running during item access {k} of the first: outer {got:#06x} (reference {outer_exp:#06x}), inner {Preempting.inner!r} (reference {other_exp:#06x})",
                       {"kind": "window", "data": frozen[:24].hex(), "start": 0, "length": 24, "history": True, "seed": seed}, size=24)
    else:
        for pat in (lambda i: rnd.randrange(256), lambda i: 0x7E, lambda i: i & 0xFF):
            f = F()
            reg = 0xFFFF
            for i in range(70000):
                b = pat(i)
                ret = f.update(b)
                reg = R.fcs_step_fast(reg, b)
                if ret != reg or (i % 997 == 0 and (f.checksum != reg ^ 0xFFFF or f.is_good is not (reg == R.GOOD))):
                    p.viol("long_run", f"long_run:{i}", f"after {i + 1} octets through update(): register {ret!r}, reference {reg:#06x}", {"kind": "message", "msg": ""}, size=i)
                    break
            p.add("messages")
            p.add("step_pairs_long", 70000)
    return p


def main(run: core.Run) -> int:
    run.rule = ("every (register, octet) pair of the FCS step function is visited exactly once by feeding all 2^24 "
                "three-octet messages through update(); non-trivial = a message after which is_good is true "
                "(distinct accepting messages), counted by the machinery")
    # the two-octet prefix map must be onto the 2^16 registers (argument for completeness of the step domain)
    regs = {R.fcs_reg(bytes((a, b))) for a in range(256) for b in range(256)}
    assert len(regs) == 65536, "two-octet prefixes do not reach every register"
    run.log("step function: 2^24 messages through update()")
    parts = par.pmap(_work_step, range(256), seed=run.seed)
    run.merge(parts)
    # short messages
    short = core.Part()
    for m in [b""] + [bytes([b]) for b in range(256)] + [bytes((a, b)) for a in range(256) for b in (0, 0x7E, 0xFF)]:
        e = check_message(m)
        short.add("messages")
        if e:
            short.viol("short", f"short:{m.hex()}", f"message {m.hex()}: {e[0]}", {"kind": "message", "msg": m.hex()},
                       size=len(m))
    run.merge([short])
    run.log("compute_checksum windows")
    rnd = random.Random(run.seed)
    alpha = (0x00, 0x01, 0x7E, 0xFF)
    strings = [bytes(t) for n in range(0, 7) for t in itertools.product(alpha, repeat=n)]
    strings += [bytes(rnd.randrange(256) for _ in range(rnd.randrange(1, 40))) for _ in range(64)]
    chunks = [strings[i::32] for i in range(32)]
    tasks = [("two", a) for a in range(256)] + [("win", c) for c in chunks]
    if not run.quick:
        tasks += [("three", a) for a in range(256)]
    run.merge(par.pmap(_work_cc, tasks, seed=run.seed))
    run.merge(par.pmap(_work_long, [("windows", run.seed), ("windows", run.seed + 1), ("runs", run.seed), ("reuse", run.seed), ("reuse", run.seed + 1), ("special", run.seed), ("special", run.seed + 1)], seed=run.seed))
    tot = run.total
    tot.sample({"message": "7e0301", "update_returns": [hex(R.fcs_reg(b"\x7e")), hex(R.fcs_reg(b"\x7e\x03")),
                                                         hex(R.fcs_reg(b"\x7e\x03\x01"))]})
    tot.sample({"message+fcs": (b"\x01\x02" + R.fcs_trailer(b"\x01\x02")).hex(), "is_good": True})
    run.bounds = {"step_domain": "2^16 registers x 2^8 octets (complete)", "residue": "all 2^16 registers x 17 trailers",
                  "compute_checksum": "all 2-octet data" + ("" if run.quick else " and all 3-octet data") +
                  "; every window of every string over {00,01,7E,FF}^<=6 and of 64 seed-derived strings; on four 9000-octet buffers 13 starts x 46 lengths around 2^k and 2047..2049; "
                  "three 70 000-octet incremental runs"}
    run.assumptions = ["bit-serial reference in mc/ref/fcs.py is RFC 1662 (checked against the X-25 check value 0x906E)",
                       "induction on message length extends the complete step-function check to all byte strings"]
    states = len(tot.d)
    return run.finish(states=states, transitions=tot.c.get("step_pairs", 0),
                      traces=tot.c.get("messages", 0) + tot.c.get("windows", 0),
                      evaluations=tot.c.get("messages", 0) + tot.c.get("windows", 0),
                      distinct_nontrivial=tot.c.get("good_messages", 0))
