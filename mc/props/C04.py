"""C04 - P1: a readout is reported valid only if its CRC16 and identification check out.
E5 (complete 2^16 checksum field per shape, all single-bit flips, identification-line list) + chunk enumeration
through the real ModeDReader."""
from __future__ import annotations

import itertools

from mc import core, par
from mc import hdlcx as X
from mc import p1x as P
from mc.ref import p1 as RP

BAD_IDENTS = [
    b"/AB5x", b"/aBC5x", b"/AbC5x", b"/ABC5", b"/ABCx", b"/ABC", b"/AB", b"/", b"/ABC55", b"/ABc5x", b"/ABC5" + b"x" * 16, b"/ABC5" + b"x" * 17,
    b"/ABC5\\2x", b"/ABC5\\2\\Wx", b"/ABC5\\", b"/ABC5\\2" + b"y" * 16, b"/ABC5\\2" + b"y" * 17, b"/ABC5a!b", b"/ABC5a/b", b"/ABC5 a b ", b"/A1C5x",
    b"/ABC5\x7f", b"/ABC5\x80", b"/ABC5x\x1f", b"/ABC5~~~", b"//ABC5x", b"/ABC5x\r", b" /ABC5x", b"/ABC5\tx", b"/\xc3\x86BC5x", b"/ABC\xb2x",
    b"/ABC5x/ABC5y", b"/ABCDx", b"/ABC0", b"/ABC9~", b"/ZZZ5" + b" " * 16, b"/ZZz5_", b"/ABC5\\_x", b"/ABC5\\-x", b"/ABC5\\\\x",
]


def check_bytes(R: bytes) -> list[tuple[str, str]]:
    """DataReadout constructed directly from bytes."""
    from han import dlde

    try:
        m = dlde.DataReadout(R)
    except (ValueError, IndexError):
        return []  # constructor refuses: not an is_valid answer
    return P.readout_errors_all_orders(m)


def check_reader(R: bytes, chunks) -> list[tuple[str, str]]:
    got, _ = P.feed(chunks)
    errs = []
    for m in got:
        errs += P.readout_errors_all_orders(m)
    return errs


def replay(case: dict) -> list[str]:
    R = bytes.fromhex(case["readout"])
    if case["via"] == "history":
        r = P.new_reader()
        got = []
        k = case["k"]
        for c in X.fixed(bytes.fromhex(case["noise"]), k) + X.fixed(bytes.fromhex(case["tail"]), max(k // 2, 3)):
            got += r.read(c)
        e = [x for m in got for x in P.readout_errors(m)]
    elif case["via"] == "bytes":
        e = check_bytes(R)
    else:
        e = check_reader(R, X.split(R, case["cuts"]) if case["cuts"] != "bytewise" else X.bytewise(R))
    return [m for k, m in e if k != "raises"]


def _note(p, R, errs, via, cuts, label):
    for kind, msg in errs:
        if kind == "raises":
            p.add("exceptions_seen_(C14)")
            continue
        p.viol(kind, f"{kind}:{via}:{R.hex() if len(R) < 120 else label}:{cuts}", f"{label} via {via} cuts={cuts}: {msg}",
               {"readout": R.hex(), "via": via, "cuts": cuts}, size=len(R))


def _both(p, R, label, reader_all_cuts=True):
    """Evaluate R directly and through the reader (one-shot, octet-wise, every single cut)."""
    from han import dlde

    p.add("readouts")
    try:
        m = dlde.DataReadout(R)
        try:
            v = m.is_valid
        except Exception:  # noqa: BLE001
            v = "raises"
        p.out(f"direct:valid={v}")
        _note(p, R, P.readout_errors_all_orders(m), "bytes", [], label)
        if v is True:
            p.add("nontrivial_valid")
    except (ValueError, IndexError):
        p.out("direct:constructor_refuses")
    p.add("executions")
    fam = [("oneshot", [])]
    if reader_all_cuts:
        fam += [("bytewise", "bytewise")] + [(f"cut{i}", [i]) for i in range(1, len(R))]
    for how, cuts in fam:
        chunks = X.bytewise(R) if cuts == "bytewise" else X.split(R, cuts)
        try:
            got, _ = P.feed(chunks)
        except Exception:  # noqa: BLE001
            p.add("exceptions_seen_(C14)")
            p.add("executions")
            continue
        p.add("executions")
        p.add("events", len(chunks))
        p.out(f"reader:returned={len(got)}")
        for m in got:
            _note(p, R, P.readout_errors_all_orders(m), "reader", cuts, label)


def _work_field(task) -> core.Part:
    """All 4-hex-digit values in the checksum field of one shape (a slice of the 2^16 values)."""
    name, base, lo, hi = task
    from han import dlde

    p = core.Part()
    d = RP.dissect(base)
    e = d["end"]
    eol = base[e + 1 + (4 if d["is_checksum"] else 0):]
    head = base[:e + 1]
    crc = d["crc"]
    for val in range(lo, hi):
        variants = [b"%04X" % val]
        near = bin(val ^ crc).count("1") <= 1 or (val ^ crc) in (0xF, 0xF0, 0xF00, 0xF000) or val == 0
        if near:
            variants += [b"%04x" % val, (b"%04X" % val)[:2] + (b"%04x" % val)[2:]]
        for txt in dict.fromkeys(variants):
            R = head + txt + eol
            m = dlde.DataReadout(R)
            errs = P.readout_errors_all_orders(m)
            p.add("readouts")
            p.add("executions")
            if val == crc:
                p.add("nontrivial_valid")
            if errs:
                _note(p, R, errs, "bytes", [], f"{name} with checksum field {txt.decode()}")
            if near:
                _both(p, R, f"{name} with checksum field {txt.decode()}")
    return p


def _work_flips(task) -> core.Part:
    name, base, double = task
    p = core.Part()
    nbits = len(base) * 8
    if isinstance(double, range):
        for b in double:
            R = bytearray(base)
            R[b >> 3] ^= 1 << (b & 7)
            _both(p, bytes(R), f"{name} bit {b} flipped")
    else:
        i = double[0]
        for j in range(i + 1, nbits):
            R = bytearray(base)
            R[i >> 3] ^= 1 << (i & 7)
            R[j >> 3] ^= 1 << (j & 7)
            _both(p, bytes(R), f"{name} bits {i},{j} flipped", reader_all_cuts=False)
    return p


def _work_ident(task) -> core.Part:
    ident, = task
    p = core.Part()
    for eol in (b"\r\n", b"\n"):
        for cs in ("crc", None):
            R = RP.build_readout(ident, P.LINES[:2], eol=eol, checksum=cs, blank_after_ident=False)
            _both(p, R, f"ident {ident!r}")
    return p


def _work_history(task) -> core.Part:
    """Readouts obtained from a reader WITH history (short noise, several KiB of periodic noise that trips the overflow
    guard, earlier readouts): every returned object must satisfy the same oracle as one built from bytes."""
    lo, step = task
    from mc.props import C16

    p = core.Part()
    pool = P.readout_pool()
    good, good2 = pool["six_crc"], pool["lf_crc"]
    bad = good[:-6] + b"0000\r\n" if RP.dissect(good)["crc"] != 0 else good[:-6] + b"0001\r\n"
    noises = [(lbl, nz) for lbl, nz in C16.long_noises("p1", True)] + [("none", b""), ("ident only", b"/ABC5xyz\r\n"), ("half readout", good[:40])]
    for idx, (label, noise) in enumerate(noises):
        if idx % step != lo:
            continue
        tail = good + bad + good2 + good
        for k in (7, 64, 1000, 10**6):
            r = P.new_reader()
            got = []
            try:
                for c in X.fixed(noise, k) + X.fixed(tail, max(k // 2, 3)):
                    got += r.read(c)
            except Exception:  # noqa: BLE001
                p.add("exceptions_seen_(C14)")
                continue
            p.add("executions")
            p.add("readouts", len(got))
            for m in got:
                for kind, msg in P.readout_errors(m):
                    if kind == "raises":
                        continue
                    p.viol(kind, f"{kind}:history:{label}:{k}:{m.as_bytes[:24]!r}", f"reader after noise {label} ({len(noise)} B, chunk {k}): {msg}",
                           {"readout": m.as_bytes.hex(), "via": "history", "noise": noise.hex(), "tail": tail.hex(), "k": k}, size=len(noise))
            nvalid = sum(1 for m in got if m.is_valid is True)
            p.out(f"history:valid={min(nvalid, 3)}")
        if p.full("valid_bad_crc") or p.full("invalid_good"):
            p.capped = True
            break
    return p


def main(run: core.Run) -> int:
    q = run.quick
    run.rule = ("per readout shape: the checksum field replaced by every 4-hex-digit value (2^16, plus case variants near the correct value and for 0000), "
                "every single-bit flip, a list of edge-case identification lines; each readout built directly from bytes and (flips, idents, near values) "
                "returned by the real reader under one-shot, octet-wise and every single cut; non-trivial = distinct readouts reported valid")
    n = P.bind_fixtures()
    run.notes.append(f"reference CRC placement / identification syntax reproduce {n} captured readouts of tests/test_dlde.py")
    pool = P.readout_pool()
    shapes = list(pool)
    tasks = []
    for name in shapes:
        for lo in range(0, 65536, 4096):
            tasks.append((name, pool[name], lo, lo + 4096))
    run.log(f"checksum field: {len(shapes)} shapes x 65536 values")
    run.merge(par.pmap(_work_field, tasks, seed=run.seed))
    ft = [(name, pool[name], range(lo, min(lo + 24, len(pool[name]) * 8))) for name in pool for lo in range(0, len(pool[name]) * 8, 24)]
    if not q:
        for name in ("min_crc", "nodata_crc"):
            ft += [(name, pool[name], (i,)) for i in range(len(pool[name]) * 8)]
    run.log(f"bit flips: {len(ft)} tasks")
    run.merge(par.pmap(_work_flips, ft, seed=run.seed))
    good = [b"/ABC5", b"/ABC5x", b"/ABc5" + b"x" * 16, b"/ZZZ0\\2\\Wid", b"/KAM5", b"/LGF5E360", b"/XMX5LGBBFFB231314239", b"/ELL5\\253833635_A"]
    run.merge(par.pmap(_work_ident, [(i,) for i in BAD_IDENTS + good], seed=run.seed))
    run.log("readers with history")
    run.merge(par.pmap(_work_history, [(i, 32) for i in range(32)], seed=run.seed))
    tot = run.total
    tot.sample({"readout": pool["min_crc"].decode(), "checksum_field_values": "0000..FFFF", "valid_only_for": RP.dissect(pool["min_crc"])["trailer"].decode()})
    tot.sample({"readout": pool["min_crc"][:-6].decode() + "0000\r\n", "oracle": "must not be reported valid (CRC is not 0)"})
    run.bounds = {"checksum_field": f"{len(shapes)} shapes x all 65536 values", "bit_flips": "every single bit of 8 shapes" + ("" if q else "; every pair of bits of the two shortest"),
                  "reader_histories": "each long periodic noise of C16 (8.3/20 KiB) and 3 short noises, then good/bad/good readouts, 4 chunk sizes", "identification_lines": f"{len(BAD_IDENTS)} edge cases + {len(good)} legal, x LF/CRLF x with/without checksum", "chunkings": "one-shot, octet-wise, every single cut"}
    run.assumptions = ["mc/ref/p1.py: CRC-16/ARC over '/'..'!' and the identification-line syntax (bound to the captured readouts of tests/test_dlde.py)",
                       "a trailer counts as a checksum exactly when it is four hex digits (any letter case)"]
    ex = tot.c.get("executions", 0)
    return run.finish(states=tot.c.get("readouts", 0), transitions=tot.c.get("events", 0) + tot.c.get("readouts", 0), traces=ex, evaluations=ex,
                      distinct_nontrivial=tot.c.get("nontrivial_valid", 0))
