"""C07 - Aidon lists decode to the transmitted register values, scaled exactly.  E5: complete enumeration of list
shapes (documented layouts, every prefix, every rotation, every element alone) x value alphabets (type boundaries,
bit patterns, seed extras) x scaler -3..3, frame and bare body."""
from __future__ import annotations

import itertools

from mc import core, cosemx, par
from mc.ref import cosem as RC

W, VAR, WH, VARH, A, V = 27, 29, 30, 32, 33, 35
CLK = (2020, 1, 21, 16, 0, 0, 0xFF, None, 0, 2)


def layouts():
    ver = ("1.1.0.2.129.255", ("str", "AIDON_V0001"))
    mid = ("0.0.96.1.0.255", ("str", "7359992892587665"))
    mty = ("0.0.96.1.7.255", ("str", "6525"))
    p = [("1.0.1.7.0.255", ("num", "u32", 280, 0, W)), ("1.0.2.7.0.255", ("num", "u32", 0, 0, W)),
         ("1.0.3.7.0.255", ("num", "u32", 13, 0, VAR)), ("1.0.4.7.0.255", ("num", "u32", 128, 0, VAR))]
    i1, i2, i3 = [(f"1.0.{c}.7.0.255", ("num", "i16", 13 + k, -1, A)) for k, c in enumerate((31, 51, 71))]
    u1, u2, u3 = [(f"1.0.{c}.7.0.255", ("num", "u16", 2274 + k, -1, V)) for k, c in enumerate((32, 52, 72))]
    clk = ("0.0.1.0.0.255", ("dt", CLK))
    en = [("1.0.1.8.0.255", ("num", "u32", 2271114, 1, WH)), ("1.0.2.8.0.255", ("num", "u32", 0, 1, WH)),
          ("1.0.3.8.0.255", ("num", "u32", 58243, 1, VARH)), ("1.0.4.8.0.255", ("num", "u32", 170843, 1, VARH))]
    perphase = [(f"1.0.{c}.7.0.255", ("num", "u32", 100 + c, 0, W if c % 10 in (1, 2) else VAR)) for c in (21, 22, 23, 24, 41, 42, 43, 44, 61, 62, 63, 64)]
    l2_1 = [ver, mid, mty] + p + [i1, u1]
    l2_3 = [ver, mid, mty] + p + [i1, i2, i3, u1, u2, u3]
    l2_3it = [ver, mid, mty] + p + [i1, i3, u1, u2, u3]
    return {
        "no_list1": [p[0]], "no_list2_1ph": l2_1, "no_list2_3ph": l2_3, "no_list2_3ph_IT": l2_3it,
        "no_list3_1ph": l2_1 + [clk] + en, "no_list3_3ph": l2_3 + [clk] + en, "no_list3_3ph_IT": l2_3it + [clk] + en,
        "se_list": [clk] + p + [i1, i2, i3, u1, u2, u3] + perphase + en,
    }


def check_items(items) -> list[str]:
    from han import aidon

    body = RC.aidon_body(items)
    want = RC.aidon_expected(items)
    errs = []
    try:  # a call that fails (truncated body) comes first: it must leave nothing behind
        aidon.decode_notification_body(body[:-1])
    except Exception:  # noqa: BLE001
        pass
    try:
        d1 = aidon.decode_notification_body(body)
        d2 = aidon.decode_frame_content(RC.llc(body))
    except Exception as ex:  # noqa: BLE001
        return [f"decoder raised {type(ex).__name__}: {ex} for body {body.hex()[:120]}"]
    errs += [f"body: {e}" for e in RC.dict_errors(d1, want)]
    if d1 != d2:
        errs.append(f"frame and bare-body dictionaries differ: {d2!r:.100} vs {d1!r:.100}")
    if not errs:  # the result belongs to the caller: change it, decode again (input as bytearray), expect the same values
        d1.clear()
        d2["meter_manufacturer"] = "x"
        errs += [f"second decode of the same body: {e}" for e in RC.dict_errors(aidon.decode_notification_body(bytearray(body)), want)]
    return errs


def _from_json(items):
    out = []
    for o, c in items:
        c = list(c)
        if c[0] == "dt":
            c[1] = tuple(c[1])
        out.append((o, tuple(c)))
    return out


def replay(case: dict) -> list[str]:
    return check_items(_from_json(case["items"]))


def _report(p, items, errs, label):
    p.viol("aidon", f"aidon:{RC.aidon_body(items).hex()[:160]}", f"{label}: {errs[0]}", {"items": [[o, list(c)] for o, c in items]}, size=len(items))


def _work_shapes(task) -> core.Part:
    name, = task
    p = core.Part()
    base = layouts()[name]
    shapes = [base[:k] for k in range(1, len(base) + 1)] + [base[k:] + base[:k] for k in range(1, len(base))] + [[it] for it in base]
    shapes += [list(reversed(base))]
    for items in shapes:
        e = check_items(items)
        p.add("evaluations")
        p.add("nontrivial")
        p.out(f"elements={min(len(items), 5)}{'+' if len(items) > 5 else ''}")
        if e:
            _report(p, items, e, f"layout {name} shape of {len(items)} elements")
            if p.full("aidon"):
                break
    return p


def _work_values(task) -> core.Part:
    typ, scaler, seed, full16 = task
    p = core.Part()
    base = layouts()["no_list3_3ph"]
    obis = {"u32": "1.0.1.7.0.255", "i16": "1.0.31.7.0.255", "u16": "1.0.32.7.0.255"}[typ]
    pos = next(i for i, (o, _) in enumerate(base) if o == obis)
    vals = cosemx.int_alphabet(typ, seed)
    if full16 and typ != "u32":
        lo, hi = RC.RANGE[typ]
        vals = range(lo + full16[0], lo + full16[1])
    for v in vals:
        item = (obis, ("num", typ, v, scaler, W))
        alone = [item]
        e = check_items(alone)
        p.add("evaluations")
        p.add("nontrivial")
        p.out("integral" if RC.exact_scaled(v, scaler).denominator == 1 else "fractional")
        if e:
            _report(p, alone, e, f"{typ} register {v} scaler {scaler} alone")
        if not full16 or v % 257 == 0:
            full = base[:pos] + [item] + base[pos + 1:]
            e = check_items(full)
            p.add("evaluations")
            if e:
                _report(p, full, e, f"{typ} register {v} scaler {scaler} inside list 3")
        if p.full("aidon"):
            p.capped = True
            break
    return p


def _work_pairs(task) -> core.Part:
    """Every pair of numeric elements of list 3 x small value/scaler alphabets (relations between two registers)."""
    import itertools

    sel, = task
    p = core.Part()
    base = layouts()["no_list3_3ph"]
    numpos = [i for i, (_, c) in enumerate(base) if c[0] == "num"]
    vals = {"u32": (0, 1, 999, 65536, 2**32 - 1), "i16": (-32768, -10, -1, 0, 1, 32767), "u16": (0, 1, 2300, 65535)}
    pairs = list(itertools.combinations(numpos, 2))[sel::8]
    for i, j in pairs:
        for vi in vals[base[i][1][1]]:
            for vj in vals[base[j][1][1]]:
                for si, sj in ((0, 0), (-1, 1), (-3, -3), (2, -2)):
                    items = list(base)
                    items[i] = (base[i][0], ("num", base[i][1][1], vi, si, base[i][1][4]))
                    items[j] = (base[j][0], ("num", base[j][1][1], vj, sj, base[j][1][4]))
                    e = check_items(items)
                    p.add("evaluations")
                    p.add("nontrivial")
                    if e:
                        _report(p, items, e, f"elements {i},{j} = {vi}e{si}, {vj}e{sj}")
                        if p.full("aidon"):
                            return p
    return p


def _work_lattice(task) -> core.Part:
    lo, hi = task
    p = core.Part()
    for hi16 in range(lo, hi):
        for k in range(16):
            val = (hi16 * 257 % 65536) * 65536 + (k * 4099 + hi16 * 7) % 65536
            for scaler in (-3, -1, 0, 2):
                items = [("1.0.1.8.0.255", ("num", "u32", val, scaler, WH))]
                e = check_items(items)
                p.add("evaluations")
                p.add("nontrivial")
                if e:
                    _report(p, items, e, f"u32 register {val} scaler {scaler}")
                    if p.full("aidon"):
                        return p
    return p


def _work_text(task) -> core.Part:
    p = core.Part()
    texts = ["", "A", "AIDON_V0001", "7359992892587665", "x" * 255, "".join(chr(c) for c in range(0x20, 0x7F)), " lead", "trail ", "6525"]
    for t in texts:
        for obis in ("1.1.0.2.129.255", "0.0.96.1.0.255", "0.0.96.1.7.255", "1.0.99.99.9.255"):
            items = [(obis, ("str", t)), ("1.0.1.7.0.255", ("num", "u32", 5, 0, W))]
            e = check_items(items)
            p.add("evaluations")
            p.add("nontrivial")
            if e:
                _report(p, items, e, f"text {t!r:.20} at {obis}")
    for t in cosemx.edge_texts():
        items = [("0.0.96.1.7.255", ("str", t)), ("1.0.1.7.0.255", ("num", "u32", 5, 0, W)), ("1.1.0.2.129.255", ("str", t[::-1])), ("0.0.96.1.0.255", ("str", t + "7"))]
        e = check_items(items)
        p.add("evaluations")
        p.add("nontrivial")
        if e:
            _report(p, items, e, f"text {t!r}")
            if p.full("aidon"):
                break
    # unknown OBIS codes decode under their C.D.E string
    for obis in ("1.0.9.7.0.255", "0.0.96.3.10.255", "1.0.31.7.1.255", "1.0.1.8.1.255"):
        items = [(obis, ("num", "u32", 7, 0, W))]
        e = check_items(items)
        p.add("evaluations")
        p.add("nontrivial")
        if e:
            _report(p, items, e, f"unknown code {obis}")
    # 'magic' words harvested from the implementation's source as identification strings
    for t in cosemx.word_texts():
        items = [("0.0.96.1.7.255", ("str", t)), ("1.0.1.7.0.255", ("num", "u32", 5, 0, W)), ("1.0.31.7.0.255", ("num", "i16", 123, -1, A)), ("1.1.0.2.129.255", ("str", t[::-1])),
                 ("0.0.96.1.0.255", ("str", t))]
        e = check_items(items)
        p.add("evaluations")
        p.add("nontrivial")
        if e:
            _report(p, items, e, f"text {t!r}")
            if p.full("aidon"):
                break
    return p


def main(run: core.Run) -> int:
    q = run.quick
    run.rule = ("shapes: 8 documented layouts, every prefix, every rotation, the reversal and every element alone; values: per integer type (u32, i16, u16) the boundary/bit-pattern/seed alphabet "
                "x scaler -3..3, each alone and inside list 3 (thorough: complete 2^16 range of i16 and u16); text fields over 9 strings x 4 codes; non-trivial = distinct lists decoded")
    cosemx.bind_fixtures()
    tasks = [(n,) for n in layouts()]
    run.merge(par.pmap(_work_shapes, tasks, seed=run.seed))
    vt = [(t, s, run.seed, False) for t in ("u32", "i16", "u16") for s in cosemx.SCALERS]
    vt += [(t, s, run.seed, (a, a + 4096)) for t in ("i16", "u16") for s in ((-1,) if q else cosemx.SCALERS) for a in range(0, 65536, 4096)]
    run.merge(par.pmap(_work_values, vt, seed=run.seed))
    run.merge(par.pmap(_work_text, [0], seed=run.seed))
    run.merge(par.pmap(_work_pairs, [(i,) for i in range(8)], seed=run.seed))
    run.merge(par.pmap(_work_lattice, [(a, a + 16) for a in range(0, 256 if q else 4096, 16)], seed=run.seed))
    tot = run.total
    tot.sample({"list": "no_list1", "body": RC.aidon_body(layouts()["no_list1"]).hex(), "expected": {"active_power_import": 280, "meter_manufacturer": "Aidon"}})
    tot.sample({"element": "i16 register -32768 scaler -1", "expected_value": -3276.8})
    run.bounds = {"layouts": list(layouts()), "pairwise": "every pair of numeric elements of list 3 x value alphabets x 4 scaler pairs", "lattice": "u32 values spread over the whole range x 4 scalers", "scalers": list(cosemx.SCALERS), "u32_values": len(cosemx.int_alphabet("u32", run.seed)), "i16_u16_complete_2^16_sweep_for_scalers": [-1] if q else list(cosemx.SCALERS)}
    run.assumptions = ["reference encoders and the C.D.E -> name table in mc/ref/cosem.py (bound to the fixtures of tests/test_aidon.py)",
                       "32-bit registers are covered on boundaries and bit patterns, not on all 2^32 values"]
    ev = tot.c.get("evaluations", 0)
    return run.finish(states=tot.c.get("nontrivial", 0), transitions=ev, traces=ev, evaluations=ev, distinct_nontrivial=tot.c.get("nontrivial", 0))
