"""E2 - explicit-state exploration of a real reader object with chunk commutation (DESIGN 3.3).

Nodes are digests of complete object-graph snapshots; a node is re-created by replaying its first (shortest)
history on a fresh object.  Events are read(e) for e in a finite event list.  The chunk-commutation check runs,
from every node, one real read() over every concatenation of 2..k events and compares outputs (and the final
snapshot) with the event-at-a-time path in the graph: by induction this decides every splitting of every event
sequence up to the depth bound."""
from __future__ import annotations

import itertools

from mc import par
from mc.snap import digest

_G: dict = {}  # set by the parent before forking: make, events, obs


def _replay(hist):
    r = _G["make"]()
    for c in hist:
        r.read(c)
    return r


def _expand(batch):
    """For each (digest, history): apply every single event; returns edge records."""
    events, obs = _G["events"], _G["obs"]
    perframe = _G.get("perframe")
    out = []
    for dg, hist in batch:
        for i, e in enumerate(events):
            r = _replay(hist)
            res = r.read(e)
            o = obs(res)
            errs = perframe(res) if (perframe and res) else None
            out.append((dg, i, digest(r), o, errs))
    return out


def _commute(batch):
    """For each (node, chunk length, fixed prefix of event indices): every chunk with that prefix in one
    read(); compare with the graph path."""
    events, obs, edges = _G["events"], _G["obs"], _G["edges"]
    nev = len(events)
    bad, snapdiff, runs = [], [], 0
    for dg, hist, l, prefix in batch:
        for tail in itertools.product(range(nev), repeat=l - len(prefix)):
            idx = prefix + tail
            # expected: follow the event-at-a-time path
            cur = dg
            exp = ()
            known = True
            for i in idx:
                nxt = edges.get((cur, i))
                if nxt is None:
                    known = False
                    break
                cur, o = nxt
                exp += o
            if not known:
                continue
            chunk = b"".join(events[i] for i in idx)
            r = _replay(hist)
            got = obs(r.read(chunk))
            runs += 1
            if got != exp:
                if len(bad) < 20:
                    bad.append((hist, idx, exp, got))
            elif digest(r) != cur:
                if len(snapdiff) < 2000:
                    snapdiff.append((hist + (chunk,), len(hist) + l))
    return bad, snapdiff, runs


def _commute_tasks(work, nev: int, target: int = 4000):
    """Split (node, max chunk length) work items into batches of roughly `target` chunk runs."""
    items = []
    for dg, hist, maxlen in work:
        for l in range(2, maxlen + 1):
            k = 0
            while nev ** (l - k) > target and k < l - 1:
                k += 1
            for prefix in itertools.product(range(nev), repeat=k):
                items.append((nev ** (l - k), (dg, hist, l, prefix)))
    batches, cur, size = [], [], 0
    for n, it in items:
        cur.append(it)
        size += n
        if size >= target:
            batches.append(cur)
            cur, size = [], 0
    if cur:
        batches.append(cur)
    return batches


class Result:
    def __init__(self) -> None:
        self.states = 0
        self.transitions = 0
        self.chunk_runs = 0
        self.levels: list[int] = []
        self.bad: list = []  # (history, event indices, expected obs, got obs)
        self.frame_errs: list = []  # (history, event, errors)
        self.snap_only = 0
        self.crashed: list = []  # Parts produced by par._guard when a worker task raised
        self.edges_with_output = 0
        self.extra_nodes = 0


MAX_EXTRA_NODES = 3000  # chunk-only states followed before giving up on closing the induction (reported, never silent)


def explore(make, events, obs, depth: int, seed: int = 0, perframe=None, batch: int = 64,
            commute: bool = True) -> Result:
    """BFS to `depth` events, then the chunk-commutation check from every node."""
    _G.clear()
    _G.update(make=make, events=list(events), obs=obs, perframe=perframe, edges={})
    res = Result()
    root = digest(make())
    nodes = {root: ()}
    ndepth = {root: 0}
    edges = _G["edges"]
    frontier = [(root, ())]
    res.levels.append(1)
    for d in range(depth):
        if not frontier:
            break
        batches = [frontier[i:i + batch] for i in range(0, len(frontier), batch)]
        nxt = []
        for recs in par.pmap(_expand, batches, seed=seed):
            if not isinstance(recs, list):
                res.crashed.append(recs)
                continue
            for dg, i, child, o, errs in recs:
                edges[(dg, i)] = (child, o)
                res.transitions += 1
                if o:
                    res.edges_with_output += 1
                if errs:
                    res.frame_errs.append((nodes[dg], i, errs))
                if child not in nodes:
                    nodes[child] = nodes[dg] + (_G["events"][i],)
                    ndepth[child] = d + 1
                    nxt.append((child, nodes[child]))
        frontier = nxt
        res.levels.append(len(nxt))
    res.states = len(nodes)
    if not commute:
        return res
    # chunk commutation from every node whose remaining depth allows a chunk of >= 2 events
    work = [(dg, h, depth - ndepth[dg]) for dg, h in nodes.items() if depth - ndepth[dg] >= 2]
    rounds = 0
    while work and rounds < 3 and res.extra_nodes <= MAX_EXTRA_NODES:
        rounds += 1
        batches = _commute_tasks(work, len(_G["events"]))
        extra = []
        for rr in par.pmap(_commute, batches, seed=seed):
            if not isinstance(rr, tuple):
                res.crashed.append(rr)
                continue
            bad, snapdiff, runs = rr
            res.chunk_runs += runs
            res.bad.extend(bad)
            res.snap_only += len(snapdiff)
            extra.extend(snapdiff)
        # states reachable only by chunks (same outputs, different snapshot): explore them as nodes of their own
        work = []
        newnodes = []
        for hist, dep in extra[:MAX_EXTRA_NODES + 1]:
            r = make()
            for c in hist:
                r.read(c)
            dg = digest(r)
            if dg in nodes:
                continue
            nodes[dg] = hist
            ndepth[dg] = dep
            newnodes.append((dg, hist))
        res.extra_nodes += len(newnodes)
        # expand the new nodes event by event up to the depth bound so that their paths exist in the graph
        frontier = [(dg, h) for dg, h in newnodes if ndepth[dg] < depth]
        while frontier:
            batches = [frontier[i:i + batch] for i in range(0, len(frontier), batch)]
            nxt = []
            for recs in par.pmap(_expand, batches, seed=seed):
                if not isinstance(recs, list):
                    res.crashed.append(recs)
                    continue
                for dg, i, child, o, errs in recs:
                    edges[(dg, i)] = (child, o)
                    res.transitions += 1
                    if child not in nodes and ndepth[dg] + 1 <= depth:
                        nodes[child] = nodes[dg] + (_G["events"][i],)
                        ndepth[child] = ndepth[dg] + 1
                        nxt.append((child, nodes[child]))
            frontier = [(dg, h) for dg, h in nxt if ndepth[dg] < depth]
        work = [(dg, h, depth - ndepth[dg]) for dg, h in newnodes if depth - ndepth[dg] >= 2]
    res.states = len(nodes)
    return res
