"""python3 mc/seedtest.py <patch.diff> <Cnn> [<Cnn> ...] [--tier quick]

Applies a property-breaking patch to a scratch worktree of /repo (never to /repo itself), runs the repository's own
test suite there (must still pass), then runs the named checks against the scratch tree with VERIF_REPO / VERIF_OUT
pointing away from /verif, and prints one line per check: CAUGHT / MISSED with wall time.  Cleans up afterwards."""
import os
import shutil
import subprocess
import sys
import tempfile
import time

VERIF = os.path.dirname(os.path.dirname(os.path.abspath(__file__)))


def main():
    args = [a for a in sys.argv[1:] if not a.startswith("--")]
    tier = "quick"
    if "--tier" in sys.argv:
        tier = sys.argv[sys.argv.index("--tier") + 1]
        args = [a for a in args if a != tier]
    patch, checks = os.path.abspath(args[0]), args[1:]
    wt = tempfile.mkdtemp(prefix="seedwt-", dir="/tmp")
    out = tempfile.mkdtemp(prefix="seedout-", dir="/tmp")
    os.rmdir(wt)
    rc = 1
    try:
        subprocess.run(["git", "-C", "/repo", "worktree", "add", "-q", "--detach", wt, "HEAD"], check=True)
        r = subprocess.run(["git", "-C", wt, "apply", "--whitespace=nowarn", patch])
        if r.returncode:
            print("PATCH DOES NOT APPLY")
            return 2
        t = subprocess.run(["/venv/bin/python", "-m", "pytest", "-q", "-p", "no:cacheprovider", "-x"], cwd=wt, capture_output=True, text=True)
        last = t.stdout.strip().splitlines()[-1] if t.stdout.strip() else "?"
        print(f"repo tests with the patch: {last}")
        if t.returncode:
            print("TESTS FAIL WITH THE PATCH - not a valid seeded change")
        env = dict(os.environ, VERIF_REPO=wt, VERIF_OUT=out)
        rc = 0
        for c in checks:
            t0 = time.time()
            r = subprocess.run([os.path.join(VERIF, "check"), c, "--tier", tier], env=env, capture_output=True, text=True)
            viol = [l for l in r.stdout.splitlines() if l.startswith("VIOLATION")]
            detail = [l.strip() for l in r.stdout.splitlines() if l.strip().startswith("kind=")]
            verdict = "CAUGHT" if (r.returncode == 1 and viol) else ("MISSED" if r.returncode == 0 else f"BROKEN(exit {r.returncode})")
            print(f"{c}: {verdict} in {time.time() - t0:.0f}s" + (f"  e.g. {detail[0][:200]}" if detail else ""))
            if verdict.startswith("BROKEN"):
                print(r.stdout[-1500:], r.stderr[-1500:])
            if verdict != "CAUGHT":
                rc = 1
    finally:
        subprocess.run(["git", "-C", "/repo", "worktree", "remove", "--force", wt])
        shutil.rmtree(out, ignore_errors=True)
    return rc


if __name__ == "__main__":
    sys.exit(main())
