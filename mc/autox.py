"""Shared pieces of the AutoDecoder explorers (C12, C15): pool of genuine messages (captured fixtures + reference-built
lists of every supported shape, frame and bare-body form), P1 blocks, junk; decoder-state construction."""
from __future__ import annotations

from mc import cosemx
from mc.ref import cosem as RC

APDU = (2023, 12, 31, 1, 2, 3, 0xFF, -60, 0, 7)


def genuine_pool():
    """name -> (payload bytes, own decoder name).  Built once per process."""
    import tests.test_dlde as td
    from han import dlde
    from mc.props import C07, C08, C09

    pool = {}
    for meter, name, body, frame in cosemx.fixtures():
        own = {"aidon": "Aidon", "kaifa": "Kaifa", "kamstrup": "Kamstrup"}[meter]
        pool[f"fix.{meter}.{name}.body"] = (body, own + "_notification_body")
        if frame is not None:
            pool[f"fix.{meter}.{name}.frame"] = (frame, own + "_frame")
    for lname, items in C07.layouts().items():
        body = RC.aidon_body(items)
        pool[f"ref.aidon.{lname}.body"] = (body, "Aidon_notification_body")
        pool[f"ref.aidon.{lname}.frame"] = (RC.llc(body), "Aidon_frame")
    for lay in (1, 9, 13, 14, 18, "se"):
        names = [n for _, n in RC.KAIFA_SE] if lay == "se" else RC.KAIFA_LAYOUTS[lay]
        v = C08.base_values(names)
        body = RC.kaifa_body_obis(v) if lay == "se" else RC.kaifa_body_positional(names, v)
        pool[f"ref.kaifa.{lay}.body"] = (body, "Kaifa_notification_body")
        pool[f"ref.kaifa.{lay}.frame"] = (RC.llc(body, b"\x09\x0c" + RC.dt12(*APDU)), "Kaifa_frame")
    pool["ref.kaifa.list1_1320W.body"] = (bytes.fromhex("02010600000528"), "Kaifa_notification_body")
    for lay, names in RC.KAM_LAYOUTS.items():
        body = RC.kam_body(names, C09.base_values(names))
        pool[f"ref.kamstrup.{lay}.body"] = (body, "Kamstrup_notification_body")
        pool[f"ref.kamstrup.{lay}.frame"] = (RC.llc(body, b"\x0c" + RC.dt12(*APDU), b"\x00\x00\x00\x00"), "Kamstrup_frame")
    for n in ("EXAMPLE_DATA_A_LANDISGYR_360", "EXAMPLE_DATA_B", "EXAMPLE_DATA_C", "EXAMPLE_DATA_D_LANDISGYR_360", "EXAMPLE_DATA_KAMSTRUP"):
        pool["fix.p1." + n] = (dlde.DataReadout(getattr(td, n)).payload, "P1")
    return pool


def junk_pool(gen):
    out = {}
    keys = sorted(gen)
    for k in keys[::5]:
        m = gen[k][0]
        out["junk.trunc_half." + k] = m[:len(m) // 2]
        out["junk.trunc_last." + k] = m[:-1]
        out["junk.tag0." + k] = bytes([m[0] ^ 0x03]) + m[1:]
    out["junk.12345"] = bytes([1, 2, 3, 4, 5])
    out["junk.empty"] = b""
    out["junk.ff"] = b"\xff" * 16
    out["junk.ascii"] = b"hello world\r\n"
    out["junk.paren"] = b"1.0(1"
    return out


DECODER_NAMES = ("Aidon_frame", "Kaifa_frame", "Kamstrup_frame", "P1", "Aidon_notification_body", "Kaifa_notification_body", "Kamstrup_notification_body")


def state_makers(gen):
    """decoder name -> a genuine payload that drives a fresh AutoDecoder into that state."""
    pick = {}
    for name in DECODER_NAMES:
        cands = sorted(k for k, (m, own) in gen.items() if own == name and k.startswith("fix."))
        pick[name] = gen[cands[0]][0]
    return pick


def make_decoder(state, makers):
    from han import autodecoder

    a = autodecoder.AutoDecoder()
    if state is not None:
        a.decode_message_payload(makers[state])
        if a.previous_success_decoder != state:
            raise RuntimeError(f"cannot reach AutoDecoder state {state}: got {a.previous_success_decoder}")
    return a
