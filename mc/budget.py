"""Deterministic termination / cost monitor (DESIGN 3.9): count Python-level call events with sys.setprofile and abort
with a BaseException when a budget is exceeded (construct's Select/GreedyRange swallow Exception, so only a
BaseException gets through)."""
from __future__ import annotations

import sys


class BudgetExceeded(BaseException):
    pass


def run_budget(fn, limit: int):
    """Returns ('ok', result, calls) | ('exc', exception, calls) | ('budget', None, calls)."""
    n = [0]

    def prof(frame, event, arg):
        if event == "call":
            n[0] += 1
            if n[0] > limit:
                sys.setprofile(None)
                raise BudgetExceeded()

    sys.setprofile(prof)
    try:
        return "ok", fn(), n[0]
    except BudgetExceeded:
        return "budget", None, n[0]
    except Exception as ex:  # noqa: BLE001
        return "exc", ex, n[0]
    finally:
        sys.setprofile(None)


def budget_for(nbytes: int) -> int:
    return 400 * nbytes + 40_000
