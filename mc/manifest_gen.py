"""Regenerates /verif/MANIFEST.json from the table below (python3 mc/manifest_gen.py)."""
import json
import os

VERIF = os.path.dirname(os.path.dirname(os.path.abspath(__file__)))

BASELINE_OFF = ("cd /repo && env -u TOREAMUN_AMSHAN_VERIF /venv/bin/python -m pytest -ra -q -p no:cacheprovider "
                "--timeout=900 --continue-on-collection-errors")

# pid -> (category, text, note, technique, design_ref, engine)
CHECKS = {
    "C01": ("model_checking",
            "Bounded-exhaustive exploration of the real HdlcFrameReader: every octet string up to length N over a 5/7-symbol alphabet that contains "
            "complete valid frames, every sequence of up to 6-8 frame tokens, and every stream within <=1-2 edits of realistic multi-frame streams, "
            "each under one-shot, octet-wise and every single cut, in all four configurations; every returned frame is checked against an independent "
            "reference (validity = length field + bit-serial FCS, exact header/payload octets) and every execution against the containment matcher.",
            "Trusted: reference model mc/ref/hdlc.py (bound to the captured frames of tests/test_hdlc.py); data independence of the reader for octets outside the reduced alphabets.",
            "bounded-exhaustive enumeration of input strings x chunkings on the real reader, reference-model oracle", "DESIGN.md 4/C01", "E1+E3"),
    "C02": ("model_checking",
            "Every frame shape of a product space (type/S x address lengths 1..4 x 1..4 x control x 7 payload contents x payload lengths incl. the 2047-octet maximum), all ordered "
            "pairs and triples of a 6-frame pool with 1..3 fill flags and leading flag-free noise, each stream under one-shot, octet-wise, every single cut, fixed sizes 2..9 x every phase "
            "and every pair of cuts (short streams); the real reader must return exactly the frames sent, valid, with the builder's fields.",
            "Trusted: frame builder and the transcription of the statement's domain restrictions for the non-stuffing configurations (mc/ref/hdlc.py clean_domain).",
            "zero-deviation exhaustive chunking enumeration over a bounded-exhaustive space of clean streams", "DESIGN.md 4/C02", "E3"),
    "C04": ("model_checking",
            "For 8 readout shapes the checksum field is replaced by every one of the 65 536 four-hex-digit values (plus letter-case variants), every single bit is flipped (pairs of bits in the thorough tier), "
            "and 48 edge-case identification lines are substituted; each readout is evaluated as DataReadout(bytes) and as returned by the real ModeDReader under one-shot, octet-wise and every single cut, "
            "against an independent dissection (first '!', CRC-16/ARC over '/'..'!', identification syntax).",
            "Trusted: mc/ref/p1.py and mc/ref/fcs.py crc16_arc (bound to the captured readouts of tests/test_dlde.py).",
            "complete enumeration of the 2^16 checksum field and of all single-bit faults x chunkings on the real code", "DESIGN.md 4/C04", "E5+E3"),
    "C05": ("model_checking",
            "Sequences of 1..3 well-formed readouts (7 shapes, 27 B..6 KiB), every proper suffix of a readout as leading tail, and long homogeneous/alternating streams (40 KiB quick, up to 300 KiB thorough) under "
            "one-shot, octet-wise, every single cut, every pair of cuts and every fixed chunk size k x every phase; the real ModeDReader must return every readout once, in order, byte-identical and valid.",
            "Trusted: readout builder mc/ref/p1.py. For chunk sizes above 96 the phases are the first/last 32 and 48 evenly spaced ones, not all.",
            "zero-deviation exhaustive chunk-size x phase enumeration on long streams of the real reader", "DESIGN.md 4/C05", "E3"),
    "C06": ("model_checking",
            "Explicit-state graph of the real reader (nodes = digests of complete object snapshots) to depth N over octet and token alphabets, all four configurations, plus the chunk-commutation check: from every "
            "node every chunk of 2..k events in one read() must give the outputs of the event-at-a-time path; by induction this decides every splitting of every stream up to the bound. Plus every <=1-2-edit "
            "stream of realistic multi-frame streams and over-long frames compared across one-shot, octet-wise, every single cut and pairs of cuts.",
            "Trusted: snapshot covers every attribute reachable from the reader (mc/snap.py), so merging states is sound; chunk-only states are added to the graph.",
            "explicit-state model checking of the implementation (BFS over snapshot digests) + chunk commutation", "DESIGN.md 4/C06", "E2+E3"),
    "C14": ("model_checking",
            "Every octet string up to length 5-6 over 9 structural octets (HDLC) and every sequence of up to 4-5 tokens over a 15-token structural alphabet (P1), plus every stream within <=1-2 edits of genuine "
            "readouts and frames, each one-shot and octet-wise through the bare readers (4 HDLC configurations) and both protocol classes with [HDLC,P1] and [P1,HDLC]; no exception may escape read(), "
            "data_received() or the four message properties, and a clean suffix must still be delivered.",
            "Trusted: the alphabets contain every structural character the statement names; bytes outside them are covered only through the edit alphabets.",
            "bounded-exhaustive enumeration of noise strings on the real readers and protocols, exception/usable oracle", "DESIGN.md 4/C14", "E1+E3"),
    "C16": ("model_checking",
            "Every noise prefix up to the bound over the reduced octet alphabets and the token alphabets, every truncation of every pool message (also followed by 7D, 7E, 7D7E), announced-length headers, 1-edit messages, "
            "long flag-free / LF-free runs, each followed by a clean suffix and run one-shot, noise-octet-wise, with cuts at the boundary -2..+2 and octet-wise; the valid messages returned must contain every suffix "
            "message but possibly the first (stuffing, P1) / every flag-free frame starting more than 2047 + its length after the noise (no stuffing).",
            "Trusted: suffix construction (own opening and closing flag per frame; the shared-flag form is checked and reported under its own kind).",
            "bounded-exhaustive enumeration of noise prefixes x clean suffix on the real readers", "DESIGN.md 4/C16", "E1"),
    "C19": ("model_checking",
            "Lasso exploration: for every prefix of <=1 token and every cycle of <=2-3 tokens over 9-token alphabets of stream patterns per reader (flag fill, junk, escape, never-ending frame, 4 KiB runs, frames; '/', "
            "identification line, data line, end line, 100 bytes without LF, ...), under per-token / per-cycle / per-n-cycles chunking, the real reader is pumped until its complete snapshot repeats at a cycle boundary - "
            "which closes the loop and decides boundedness for the infinite stream - while the deep size after every read() is held against a constant bound + 2 x chunk.",
            "Trusted: determinism of the reader and completeness of the snapshot; leaks needing aperiodic input or longer cycles are out of reach.",
            "lasso (prefix + cycle) state-repetition search on the real reader with a size invariant", "DESIGN.md 4/C19", "E4"),
    "C03": ("model_checking",
            "Complete enumeration of the FCS step function's domain (all 2^16 registers x 2^8 octets = all 2^24 "
            "three-octet messages through the public update()), all 2^16 residues with exact and bit-flipped "
            "trailers, and complete small domains of compute_checksum windows, each compared with a bit-serial "
            "RFC 1662 reference. Exhaustive for the step function, hence (induction on length) for every byte string.",
            "Trusted: the bit-serial reference (mc/ref/fcs.py, anchored to the X-25 check value) and the induction "
            "argument from the complete step-function domain to all strings.",
            "exhaustive state-space enumeration of the FCS register machine (2^24 transitions) on the real code",
            "DESIGN.md 4/C03", "E5"),
}

ALL = [f"C{n:02d}" for n in range(1, 21)]


def main() -> None:
    checks = []
    for pid in ALL:
        if pid not in CHECKS:
            continue
        cat, text, note, tech, ref, engine = CHECKS[pid]
        checks.append({
            "property_id": pid,
            "quick_cmd": f"./check {pid} --tier quick",
            "thorough_cmd": f"./check {pid} --tier thorough",
            "evidence_file": f"/verif/evidence/{pid}.json",
            "replay_cmd_template": f"./check {pid} --replay {{path}}",
            "engine": engine,
            "level_claimed": {"category": cat, "text": text, "design_ref": ref},
            "level_note": note,
            "technique": tech,
        })
    na = [{"property_id": pid, "reason": "check not built yet (work in progress; planned in DESIGN.md section 4)"}
          for pid in ALL if pid not in CHECKS]
    man = {
        "version": 1,
        "setup_cmd": "/venv/bin/python -B -c \"import sys; sys.path.insert(0,'/repo'); import construct, han.hdlc, "
                     "han.dlde, han.autodecoder, han.meter_connection; print('ok')\"",
        "hooks": {
            "guard": "TOREAMUN_AMSHAN_VERIF",
            "enable": "no source hooks are needed: the explorers import /repo/han from the working tree and observe "
                      "public API only; ./check exports TOREAMUN_AMSHAN_VERIF=1 for uniformity",
            "baseline_off_cmd": BASELINE_OFF,
            "source_commits": [],
            "add_only": True,
        },
        "engines": [
            {"name": "E1", "path": "mc/enum.py", "kind_free_text": "exhaustive strings/token sequences over tiny alphabets on the real readers"},
            {"name": "E2", "path": "mc/graph.py", "kind_free_text": "explicit-state BFS over real objects with snapshot digests + chunk commutation"},
            {"name": "E3", "path": "mc/devs.py", "kind_free_text": "deviation-bounded edits of realistic streams x chunk enumeration"},
            {"name": "E4", "path": "mc/lasso.py", "kind_free_text": "prefix + cycle pumping for boundedness"},
            {"name": "E5", "path": "mc/props", "kind_free_text": "bounded-exhaustive input shapes x value alphabets for pure decoders"},
            {"name": "E6", "path": "mc/vloop.py", "kind_free_text": "virtual-time asyncio loop, close() injected before every callback"},
        ],
        "checks": checks,
        "not_applicable": na,
        "notes": "All checks explore the real implementation imported from /repo's working tree; see DESIGN.md.",
    }
    if not na:
        del man["not_applicable"]
        man["not_applicable"] = []
    with open(os.path.join(VERIF, "MANIFEST.json"), "w") as fh:
        json.dump(man, fh, indent=1)
    print(f"MANIFEST.json: {len(checks)} checks, {len(na)} not_applicable")


if __name__ == "__main__":
    main()
