"""Regenerates /verif/MANIFEST.json from the table below (python3 mc/manifest_gen.py)."""
import json
import os

VERIF = os.path.dirname(os.path.dirname(os.path.abspath(__file__)))

BASELINE_OFF = ("cd /repo && env -u TOREAMUN_AMSHAN_VERIF /venv/bin/python -m pytest -ra -q -p no:cacheprovider "
                "--timeout=900 --continue-on-collection-errors")

# pid -> (category, text, note, technique, design_ref, engine)
CHECKS = {
    "C17": ("model_checking",
            "Stateless model checking of the real ConnectionManager on a deterministic virtual-time asyncio loop (one step = one callback): every environment script up to the bound (attempt outcomes succeed/fail/slow x connection "
            "lifetimes) is run once without close() and once per event-loop step k with close() executed before step k - the complete set of interleavings of one external close() with the loop's schedule - with prefix-divergence and "
            "double-replay determinism checks; invariants on every step (<=1 live transport, no attempt while one is live or in flight or after close(), <=8 pending tasks) and at quiescence (reconnect after every failure/loss; "
            "connect_loop() returns at the virtual instant of close(), every transport closed, no task left); plus 2000-5000-cycle runs for the task bound."
            " Also: four periodic scripts of 24 (thorough 60) attempts with close() at every step, and outages of 31..128 failures followed by a success with close() at the last 40 steps.",
            "Trusted: the explorer owns clock, callback order and factory (fake transport behaves like a real one: close() schedules one connection_lost); one external close() per run; CPython 3.12 asyncio internals.",
            "exhaustive schedule exploration (close() at every event-loop step of every bounded environment script) on the real code", "DESIGN.md 4/C17", "E6+E4"),
    "C18": ("model_checking",
            "Strategy object: explicit-state BFS over snapshots of the real ExponentialBackOff under {failure, reset} to depth 14 (all 2^15-1 sequences land in the 15 visited states) with every max_delay 1..3600 evaluated in every state. "
            "Manager: every script of outcomes {fail, succeed-then-lost after 1/3/10 s} up to length 6-8 x 5 (threshold, sleep, max_delay) settings on the virtual-time loop with the manager's wall clock substituted by the virtual clock; "
            "the time stamps of factory calls must satisfy the capped exponential back-off and loss-breaker bounds."
            " Also: run-length families f^k, f^k r, f^k r f^j for k = 1..200 on the strategy object; manager scripts with outages of 30..100 failures followed by a reconnect, attempts that take 0.4..61 s to fail, 8 (threshold, sleep, max_delay) settings. Calendar phase: loss scripts with the manager's wall clock started 11 s before every hour of the daylight-saving switch days, leap day, new year and 2038, in a UTC process and in a CET/CEST process.",
            "Trusted: virtual clock substitution through han.meter_connection.datetime; slack 1e-6 s.", "explicit-state exploration of the strategy object + exhaustive bounded environment scripts on the virtual-time loop", "DESIGN.md 4/C18", "E2+E6"),
    "C07": ("model_checking",
            "Bounded-exhaustive input shapes for the Aidon decoder: 8 documented list layouts, every prefix, every rotation, the reversal and every element alone; per integer type (u32, i16, u16) a boundary/bit-pattern/seed alphabet "
            "x every scaler -3..3, alone and inside list 3, and the complete 2^16 range of the i16 and u16 registers; text fields; unknown codes; frame vs bare body. Expected dictionaries from exact Fraction arithmetic."
            " Also: every pair of numeric elements x value alphabets x scaler pairs, a lattice of u32 values over the whole range, and a dictionary of words harvested from the source under test as identification strings.",
            "Trusted: reference encoders and the documented C.D.E -> name table (mc/ref/cosem.py), bound byte for byte to the 14 captured notification bodies of the test suite. 32-bit registers on boundaries and bit patterns, not all 2^32.",
            "bounded-exhaustive shape x value enumeration on the real decoder with an exact-arithmetic reference", "DESIGN.md 4/C07", "E5"),
    "C08": ("model_checking",
            "The five positional Kaifa layouts and the OBIS-tagged layout with all-distinct registers (a swap is visible), per position the u32 boundary/bit-pattern/seed alphabet, all-equal rows, text alphabets, complete 2^16 sweeps "
            "of half-words of current and voltage registers; bare body and frame (APDU date-time vs list clock)."
            " Also: full product of identification-string lengths {0,1,5,6,7,8,11,12,13,16,32}, every pair of numeric positions x 8x8 values, a 32-bit lattice for three registers, source-harvested words in every text field.",
            "Trusted: as C07 (mc/ref/cosem.py bound to tests/test_kaifa.py fixtures).", "bounded-exhaustive shape x value enumeration on the real decoder with an exact-arithmetic reference", "DESIGN.md 4/C08", "E5"),
    "C09": ("model_checking",
            "Five documented Kamstrup layouts x null-data padding of 1/4 octets after each element position and everywhere x 9 meter type numbers (incl. current-transformer types 685...) x u32/u16 alphabets per register for a standard "
            "and a CT meter x complete 2^16 sweep of a current register; bare body and frame."
            " Also: padding sweep 0..130/200/255 null-data octets, every pair of registers x 7x7 values, 32-bit lattice, source-harvested words, APDU-vs-list-clock relations (equal civil fields / equal instants with different deviations).",
            "Trusted: as C07 (bound to tests/test_kamstrup.py fixtures); register/100 is taken literally as the correctly rounded quotient.", "bounded-exhaustive shape x value enumeration on the real decoder with an exact-arithmetic reference", "DESIGN.md 4/C09", "E5"),
    "C10": ("model_checking",
            "31 680 date-times from the full product of reduced field alphabets plus complete single-field sweeps (all 1441 deviations and 'unspecified', all 256 status octets, all hundredths, every day of 2023/2024, times of day, all day-of-week values) "
            "placed in each of the six syntactic positions (APDU tagged/untagged, Aidon, Kaifa positional, Kaifa OBIS, Kamstrup clock elements), compared with == and utcoffset()."
            " Also: every 29 February of all leap years, first/last day of every month of all century years, the complete calendar 1..9999 in one position (thorough), and sequences of consecutive date-times naming one instant in different offsets. Civil times of the daylight-saving switch nights are decoded in a UTC process and in a CET/CEST process.",
            "Trusted: reference date-time encoder; no full cross product of complete field ranges.", "bounded-exhaustive field-product enumeration x 6 syntactic positions on the real decoders", "DESIGN.md 4/C10", "E5"),
    "C11": ("model_checking",
            "Grammar-shape enumeration of P1 data blocks (1..3 data sets per line, 1..3 values per set over 5 value kinds, LF/CRLF, blank lines), every presence pattern of A,B,F over all 30 known C.D.E codes and unknown ones x unit letter-case variants, "
            "the complete grid of decimals with 0..3 fraction digits for 25 integer parts x leading zeros, clock values, 270 identification lines; each block through parse, decode_p1_readout_content, decode_p1_readout and both AutoDecoder entry points "
            "against an exact (Fraction) reference."
            " Also: leading zeros / value lengths 0..130, 255..257, 1000, 4000; relations between data sets of one block (same address twice, same field name from two addresses); source-harvested words as values and ids. The objects of a parse result are edited by the caller and the same block is parsed again. Address lengths 3..23, every printable character in values and units, each line also as the only line of its block, a failing decode before every evaluation, remembered decoder must be P1.",
            "Trusted: exact reference parser (bound to the data sets of the 5 captured readouts).", "bounded-exhaustive grammar-shape enumeration with an exact-arithmetic reference", "DESIGN.md 4/C11", "E5"),
    "C12": ("model_checking",
            "Explicit-state exploration of the real AutoDecoder to a fixpoint: 8 states (remembered decoder) x a pool of 120+ payloads (28 captured messages, reference-built lists of every supported shape in frame and body form, 5 P1 blocks, junk): every "
            "(state, event) transition is executed and judged against the seven decoder functions called individually; both entry points with HdlcFrame/DlmsMessage/DataReadout wrappers. Covers histories of any length over the pool. Also 966 generated well-formed lists (C07-C09 shape generators) x fresh and 7 remembered decoders, and every payload of 0..2 octets on a fresh decoder."
            " States are digests of the complete AutoDecoder snapshot (a hidden counter enlarges the state space and is explored up to a level cap); exhaustive histories of length 3 on one live object are compared with the transition table; FCS-colliding frame pairs through decode_message; results compared strictly (datetime offsets, number types).",
            "Trusted: the AutoDecoder's future depends only on its snapshotted attributes; accept/reject observed by calling the public decoder functions.", "explicit-state model checking to a fixpoint (all reachable states x all events)", "DESIGN.md 4/C12", "E2"),
    "C13": ("model_checking",
            "Every sequence of up to 3-4 segments over a 10-segment alphabet (valid/header-only/bad-FCS/wrong-length/stuffed frames, valid/bad-CRC/checksum-less readouts, binary and ASCII noise) x 7 candidate reader lists x both protocol classes x "
            "chunkings (one-shot, octet-wise, every single cut, fixed 2..7, pairs of cuts); the queue is compared with the expectation computed from independent reader instances, plus the completeness clause on clean streams."
            " Also: run lengths 1..40 (thorough 130) of invalid/valid messages around valid ones, 1..3000 data_received() calls of noise before a clean stream, a valid frame that carries a valid readout, and candidate containers (tuple; one list handed to two protocol instances in a row; the caller's list left alone).",
            "Trusted: the expectation uses fresh real readers (the property is relative to the readers' own output).", "bounded-exhaustive enumeration of segment sequences x chunkings x configurations on the real protocols", "DESIGN.md 4/C13", "E1"),
    "C15": ("model_checking",
            "Every truncation and every 1-octet substitution (16 structural values, b+-1, b^1; thorough: 2-octet structural substitutions) of genuine messages, and every ASCII string up to length 4-7 over {1 . ( ) * x LF}, each given to the real AutoDecoder in "
            "each of its 8 states and through both entry points under a deterministic call-count budget (400 n + 40 000 Python calls; observed maximum about 4 % of it): no exception, dict or None, terminates."
            " Also: each remembered decoder reached by k genuine messages (k in {1,6}, thorough up to 64), well-formed messages with clocks at year 1 / 9999 in all six date-time positions, source-harvested words alone and inside P1-looking text. Number texts (exponents up to 1E999999999, 400..20000-digit strings, signs, separators, inf/nan) x 9 addresses x 27 unit spellings; a real-time watchdog (45 s per evaluation, shared-memory heart beat) reports evaluations that hang inside one C call. P1 syntax-token sequences up to 5-6 tokens.",
            "Trusted: the call-count budget as proxy for time and memory; RLIMIT_AS backstop.", "deviation-bounded exhaustive mutation of messages x all decoder states with a deterministic termination monitor", "DESIGN.md 4/C15", "E3"),
    "C20": ("model_checking",
            "All 16 presence patterns of the optional groups x group values over {0,1,9,10,99,100,255} in both syntaxes (3.3e5 codes), complete 0..255 sweep of every group, format->parse round trip whenever optional groups are absent or non-zero, "
            "every string up to length 6-8 over {1 . - : * a space} without digit.digit (must raise ValueError), all 5.3e6 ordered pairs of 2304 tuples for ==/hash."
            " Also: objects derived from a formatted original (filter_group_cde, copy, Obis(as_tupple())) must behave like fresh objects. Sequences of == with valid, malformed and repeated malformed strings over several objects.",
            "Trusted: reference formatter mc/ref/obis.py.", "exhaustive enumeration of the bounded input space", "DESIGN.md 4/C20", "E5"),
    "C01": ("model_checking",
            "Bounded-exhaustive exploration of the real HdlcFrameReader: every octet string up to length N over a 5/7-symbol alphabet that contains "
            "complete valid frames, every sequence of up to 6-8 frame tokens, and every stream within <=1-2 edits of realistic multi-frame streams, "
            "each under one-shot, octet-wise and every single cut, in all four configurations; every returned frame is checked against an independent "
            "reference (validity = length field + bit-serial FCS, exact header/payload octets) and every execution against the containment matcher."
            " Also: 701 frames covering every octet value in every FCS/HCS position and special whole check sequences (0000, FFFF, flag/escape pairs), alone and after multi-KiB periodic noise; escape-aligned cut pairs with middle chunks of 1..1024 octets on mid-size and 2047-octet frames.",
            "Trusted: reference model mc/ref/hdlc.py (bound to the captured frames of tests/test_hdlc.py); data independence of the reader for octets outside the reduced alphabets.",
            "bounded-exhaustive enumeration of input strings x chunkings on the real reader, reference-model oracle", "DESIGN.md 4/C01", "E1+E3"),
    "C02": ("model_checking",
            "Every frame shape of a product space (type/S x address lengths 1..4 x 1..4 x control x 7 payload contents x payload lengths incl. the 2047-octet maximum), all ordered "
            "pairs and triples of a 6-frame pool with 1..3 fill flags and leading flag-free noise, each stream under one-shot, octet-wise, every single cut, fixed sizes 2..9 x every phase "
            "and every pair of cuts (short streams); the real reader must return exactly the frames sent, valid, with the builder's fields."
            " Also: every fill length 1..130 (and 255..4096), every payload length 0..300 and every 7th (thorough: every) length up to 2038, the check-sequence octet sweep, and payloads that look like protocol traffic (valid frame between flags, stuffed frame, P1 readout, abort sequence).",
            "Trusted: frame builder and the transcription of the statement's domain restrictions for the non-stuffing configurations (mc/ref/hdlc.py clean_domain).",
            "zero-deviation exhaustive chunking enumeration over a bounded-exhaustive space of clean streams", "DESIGN.md 4/C02", "E3"),
    "C04": ("model_checking",
            "For 8 readout shapes the checksum field is replaced by every one of the 65 536 four-hex-digit values (plus letter-case variants), every single bit is flipped (pairs of bits in the thorough tier), "
            "and 48 edge-case identification lines are substituted; each readout is evaluated as DataReadout(bytes) and as returned by the real ModeDReader under one-shot, octet-wise and every single cut, "
            "against an independent dissection (first '!', CRC-16/ARC over '/'..'!', identification syntax)."
            " Every readout is judged as is, on a clone whose other accessors were used first, and when asked twice; readouts obtained from readers with history (short noise and the 8-20 KiB periodic noises that trip the overflow guard) go through the same oracle.",
            "Trusted: mc/ref/p1.py and mc/ref/fcs.py crc16_arc (bound to the captured readouts of tests/test_dlde.py).",
            "complete enumeration of the 2^16 checksum field and of all single-bit faults x chunkings on the real code", "DESIGN.md 4/C04", "E5+E3"),
    "C05": ("model_checking",
            "Sequences of 1..3 well-formed readouts (7 shapes, 27 B..6 KiB), every proper suffix of a readout as leading tail, and long homogeneous/alternating streams (40 KiB quick, up to 300 KiB thorough) under "
            "one-shot, octet-wise, every single cut, every pair of cuts and every fixed chunk size k x every phase; the real ModeDReader must return every readout once, in order, byte-identical and valid."
            " Also: identification-line variants (0/1/2 escape sequences x id length 0/1/15/16), one data line of 0..199 and up to 7900 characters, 0..280 data lines.",
            "Trusted: readout builder mc/ref/p1.py. For chunk sizes above 96 the phases are the first/last 32 and 48 evenly spaced ones, not all.",
            "zero-deviation exhaustive chunk-size x phase enumeration on long streams of the real reader", "DESIGN.md 4/C05", "E3"),
    "C06": ("model_checking",
            "Explicit-state graph of the real reader (nodes = digests of complete object snapshots) to depth N over octet and token alphabets, all four configurations, plus the chunk-commutation check: from every "
            "node every chunk of 2..k events in one read() must give the outputs of the event-at-a-time path; by induction this decides every splitting of every stream up to the bound. Plus every <=1-2-edit "
            "stream of realistic multi-frame streams and over-long frames compared across one-shot, octet-wise, every single cut and pairs of cuts."
            " Also: mid-size frames with every pair of cuts, the check-sequence octet sweep under every single cut, escape-aligned cut pairs on 2047-octet frames, and long clean histories (1..260, thorough 1100 frames) followed by a twist with a cut at each of the last ~150 positions.",
            "Trusted: snapshot covers every attribute reachable from the reader (mc/snap.py), so merging states is sound; chunk-only states are added to the graph.",
            "explicit-state model checking of the implementation (BFS over snapshot digests) + chunk commutation", "DESIGN.md 4/C06", "E2+E3"),
    "C14": ("model_checking",
            "Every octet string up to length 5-6 over 9 structural octets (HDLC) and every sequence of up to 4-5 tokens over a 15-token structural alphabet (P1), plus every stream within <=1-2 edits of genuine "
            "readouts and frames, each one-shot and octet-wise through the bare readers (4 HDLC configurations) and both protocol classes with [HDLC,P1] and [P1,HDLC]; no exception may escape read(), "
            "data_received() or the four message properties, and a clean suffix must still be delivered."
            " Also: 8-20 KiB periodic noise (P1) / 2-5 KiB (HDLC) in small chunks followed by a clean stream.",
            "Trusted: the alphabets contain every structural character the statement names; bytes outside them are covered only through the edit alphabets.",
            "bounded-exhaustive enumeration of noise strings on the real readers and protocols, exception/usable oracle", "DESIGN.md 4/C14", "E1+E3"),
    "C16": ("model_checking",
            "Every noise prefix up to the bound over the reduced octet alphabets and the token alphabets, every truncation of every pool message (also followed by 7D, 7E, 7D7E), announced-length headers, 1-edit messages, "
            "long flag-free / LF-free runs, each followed by a clean suffix and run one-shot, noise-octet-wise, with cuts at the boundary -2..+2 and octet-wise; the valid messages returned must contain every suffix "
            "message but possibly the first (stuffing, P1) / every flag-free frame starting more than 2047 + its length after the noise (no stuffing)."
            " Also: suffix frames from the check-sequence octet sweep, long periodic noise prefixes, and 5-6 KiB readouts in the P1 suffix. Junk containing '/' lines that are not identification lines x every cut (pairs of cuts for short junk). Noise + clean suffix also through the feeding variants (re-used receive buffer, other live readers left inside a frame).",
            "Trusted: suffix construction (own opening and closing flag per frame; the shared-flag form is checked and reported under its own kind).",
            "bounded-exhaustive enumeration of noise prefixes x clean suffix on the real readers", "DESIGN.md 4/C16", "E1"),
    "C19": ("model_checking",
            "Lasso exploration: for every prefix of <=1 token and every cycle of <=2-3 tokens over 9-token alphabets of stream patterns per reader (flag fill, junk, escape, never-ending frame, 4 KiB runs, frames; '/', "
            "identification line, data line, end line, 100 bytes without LF, ...), under per-token / per-cycle / per-n-cycles chunking, the real reader is pumped until its complete snapshot repeats at a cycle boundary - "
            "which closes the loop and decides boundedness for the infinite stream - while the deep size after every read() is held against a constant bound + 2 x chunk.",
            "Trusted: determinism of the reader and completeness of the snapshot; leaks needing aperiodic input or longer cycles are out of reach.",
            "lasso (prefix + cycle) state-repetition search on the real reader with a size invariant", "DESIGN.md 4/C19", "E4"),
    "C03": ("model_checking",
            "Complete enumeration of the FCS step function's domain (all 2^16 registers x 2^8 octets = all 2^24 "
            "three-octet messages through the public update()), all 2^16 residues with exact and bit-flipped "
            "trailers, and complete small domains of compute_checksum windows, each compared with a bit-serial "
            "RFC 1662 reference. Exhaustive for the step function, hence (induction on length) for every byte string."
            " Also: windows on 9000-octet buffers around powers of two and 2047..2049, 70 000-octet incremental runs, and re-use of one bytes/bytearray object with in-place changes between calls. Windows whose running register is 0000/FFFF/F0B8/0001/8000 before the last 1-3 octets. Every window again right after each kind of failing call; all interleavings of two compute_checksum calls with one preemption at item-access granularity.",
            "Trusted: the bit-serial reference (mc/ref/fcs.py, anchored to the X-25 check value) and the induction "
            "argument from the complete step-function domain to all strings.",
            "exhaustive state-space enumeration of the FCS register machine (2^24 transitions) on the real code",
            "DESIGN.md 4/C03", "E5"),
}

ALL = [f"C{n:02d}" for n in range(1, 21)]


def main() -> None:
    checks = []
    for pid in ALL:
        if pid not in CHECKS:
            continue
        cat, text, note, tech, ref, engine = CHECKS[pid]
        checks.append({
            "property_id": pid,
            "quick_cmd": f"./check {pid} --tier quick",
            "thorough_cmd": f"./check {pid} --tier thorough",
            "evidence_file": f"/verif/evidence/{pid}.json",
            "replay_cmd_template": f"./check {pid} --replay {{path}}",
            "engine": engine,
            "level_claimed": {"category": cat, "text": text, "design_ref": ref},
            "level_note": note,
            "technique": tech,
        })
    na = [{"property_id": pid, "reason": "check not built yet (work in progress; planned in DESIGN.md section 4)"}
          for pid in ALL if pid not in CHECKS]
    man = {
        "version": 1,
        "setup_cmd": "/venv/bin/python -B -c \"import sys; sys.path.insert(0,'/repo'); import construct, han.hdlc, "
                     "han.dlde, han.autodecoder, han.meter_connection; print('ok')\"",
        "hooks": {
            "guard": "TOREAMUN_AMSHAN_VERIF",
            "enable": "no source hooks are needed: the explorers import /repo/han from the working tree and observe "
                      "public API only; ./check exports TOREAMUN_AMSHAN_VERIF=1 for uniformity",
            "baseline_off_cmd": BASELINE_OFF,
            "source_commits": [],
            "add_only": True,
        },
        "engines": [
            {"name": "E1", "path": "mc/enum.py", "kind_free_text": "exhaustive strings/token sequences over tiny alphabets on the real readers"},
            {"name": "E2", "path": "mc/graph.py", "kind_free_text": "explicit-state BFS over real objects with snapshot digests + chunk commutation"},
            {"name": "E3", "path": "mc/devs.py", "kind_free_text": "deviation-bounded edits of realistic streams x chunk enumeration"},
            {"name": "E4", "path": "mc/lasso.py", "kind_free_text": "prefix + cycle pumping for boundedness"},
            {"name": "E5", "path": "mc/props", "kind_free_text": "bounded-exhaustive input shapes x value alphabets for pure decoders"},
            {"name": "E6", "path": "mc/vloop.py", "kind_free_text": "virtual-time asyncio loop, close() injected before every callback"},
        ],
        "checks": checks,
        "not_applicable": na,
        "notes": "All checks explore the real implementation imported from /repo's working tree; see DESIGN.md.",
    }
    if not na:
        del man["not_applicable"]
        man["not_applicable"] = []
    with open(os.path.join(VERIF, "MANIFEST.json"), "w") as fh:
        json.dump(man, fh, indent=1)
    print(f"MANIFEST.json: {len(checks)} checks, {len(na)} not_applicable")


if __name__ == "__main__":
    main()
