"""Regenerates /verif/MANIFEST.json from the table below (python3 mc/manifest_gen.py)."""
import json
import os

VERIF = os.path.dirname(os.path.dirname(os.path.abspath(__file__)))

BASELINE_OFF = ("cd /repo && env -u TOREAMUN_AMSHAN_VERIF /venv/bin/python -m pytest -ra -q -p no:cacheprovider "
                "--timeout=900 --continue-on-collection-errors")

# pid -> (category, text, note, technique, design_ref, engine)
CHECKS = {
    "C03": ("model_checking",
            "Complete enumeration of the FCS step function's domain (all 2^16 registers x 2^8 octets = all 2^24 "
            "three-octet messages through the public update()), all 2^16 residues with exact and bit-flipped "
            "trailers, and complete small domains of compute_checksum windows, each compared with a bit-serial "
            "RFC 1662 reference. Exhaustive for the step function, hence (induction on length) for every byte string.",
            "Trusted: the bit-serial reference (mc/ref/fcs.py, anchored to the X-25 check value) and the induction "
            "argument from the complete step-function domain to all strings.",
            "exhaustive state-space enumeration of the FCS register machine (2^24 transitions) on the real code",
            "DESIGN.md 4/C03", "E5"),
}

ALL = [f"C{n:02d}" for n in range(1, 21)]


def main() -> None:
    checks = []
    for pid in ALL:
        if pid not in CHECKS:
            continue
        cat, text, note, tech, ref, engine = CHECKS[pid]
        checks.append({
            "property_id": pid,
            "quick_cmd": f"./check {pid} --tier quick",
            "thorough_cmd": f"./check {pid} --tier thorough",
            "evidence_file": f"/verif/evidence/{pid}.json",
            "replay_cmd_template": f"./check {pid} --replay {{path}}",
            "engine": engine,
            "level_claimed": {"category": cat, "text": text, "design_ref": ref},
            "level_note": note,
            "technique": tech,
        })
    na = [{"property_id": pid, "reason": "check not built yet (work in progress; planned in DESIGN.md section 4)"}
          for pid in ALL if pid not in CHECKS]
    man = {
        "version": 1,
        "setup_cmd": "/venv/bin/python -B -c \"import sys; sys.path.insert(0,'/repo'); import construct, han.hdlc, "
                     "han.dlde, han.autodecoder, han.meter_connection; print('ok')\"",
        "hooks": {
            "guard": "TOREAMUN_AMSHAN_VERIF",
            "enable": "no source hooks are needed: the explorers import /repo/han from the working tree and observe "
                      "public API only; ./check exports TOREAMUN_AMSHAN_VERIF=1 for uniformity",
            "baseline_off_cmd": BASELINE_OFF,
            "source_commits": [],
            "add_only": True,
        },
        "engines": [
            {"name": "E1", "path": "mc/enum.py", "kind_free_text": "exhaustive strings/token sequences over tiny alphabets on the real readers"},
            {"name": "E2", "path": "mc/graph.py", "kind_free_text": "explicit-state BFS over real objects with snapshot digests + chunk commutation"},
            {"name": "E3", "path": "mc/devs.py", "kind_free_text": "deviation-bounded edits of realistic streams x chunk enumeration"},
            {"name": "E4", "path": "mc/lasso.py", "kind_free_text": "prefix + cycle pumping for boundedness"},
            {"name": "E5", "path": "mc/props", "kind_free_text": "bounded-exhaustive input shapes x value alphabets for pure decoders"},
            {"name": "E6", "path": "mc/vloop.py", "kind_free_text": "virtual-time asyncio loop, close() injected before every callback"},
        ],
        "checks": checks,
        "not_applicable": na,
        "notes": "All checks explore the real implementation imported from /repo's working tree; see DESIGN.md.",
    }
    if not na:
        del man["not_applicable"]
        man["not_applicable"] = []
    with open(os.path.join(VERIF, "MANIFEST.json"), "w") as fh:
        json.dump(man, fh, indent=1)
    print(f"MANIFEST.json: {len(checks)} checks, {len(na)} not_applicable")


if __name__ == "__main__":
    main()
