"""Shared pieces of the HDLC explorers (C01, C02, C06, C14, C16, C19): driving the real reader,
observations, the per-frame oracle of C01, alphabets, token alphabet, frame pool, chunkings."""
from __future__ import annotations

import itertools

from mc.ref import hdlc as RH

CFGS = ((False, False), (False, True), (True, False), (True, True))  # (octet stuffing, abort detection)

SIGMA_H = (0x7E, 0x7D, 0x78, 0x07, 0x01)
SIGMA_HP = SIGMA_H + (0x5E, 0x27)


def cfg_name(cfg) -> str:
    return f"stuffing={int(cfg[0])},abort={int(cfg[1])}"


def new_reader(cfg):
    from han import hdlc

    return hdlc.HdlcFrameReader(use_octet_stuffing=cfg[0], use_abort_sequence=cfg[1])


def feed(cfg, chunks):
    """Run the real reader over the chunks; returns the list of returned frames (objects)."""
    r = new_reader(cfg)
    out = []
    for c in chunks:
        out += take(r.read(c))
    return out, r


class _Marker:
    """Left behind in every list a reader returned (the list belongs to the caller): if a later call hands the same list
    object back, the marker comes with it."""

    def __repr__(self):
        return "<object the caller put into an earlier result list>"


MARK = _Marker()


def take(result):
    """Copy a read() result and then scribble on the returned list."""
    if not isinstance(result, list):
        raise TypeError(f"read() returned {type(result).__name__}, not a list")
    if any(x is MARK for x in result):
        raise AssertionError("read() returned a list object it had returned before (the caller's earlier additions are still in it)")
    got = list(result)
    result.append(MARK)
    return got


def obs(frames):
    return tuple((f.as_bytes, f.is_valid, f.payload) for f in frames)


def split(S: bytes, cuts):
    """Split S at the given sorted cut positions."""
    out = []
    a = 0
    for c in cuts:
        out.append(S[a:c])
        a = c
    out.append(S[a:])
    return out


def bytewise(S: bytes):
    return [S[i:i + 1] for i in range(len(S))]


def fixed(S: bytes, k: int, phase: int = 0):
    """Chunks of size k, the first one of size `phase` (if phase > 0)."""
    out = []
    i = 0
    if phase:
        out.append(S[:phase])
        i = phase
    while i < len(S):
        out.append(S[i:i + k])
        i += k
    return out


# ---- the minimal frame and the token alphabet (DESIGN 3.2); recomputed, not trusted ------------------------
H7 = bytes.fromhex("7807070701")
F7 = H7 + RH.trailer(H7)
assert F7 == bytes.fromhex("78070707010107") and RH.expected_valid(F7), F7.hex()
H10 = bytes.fromhex("a00a012113")
F10 = RH.build_frame(0xA, 0, b"\x01", b"\x21", 0x13, b"\x7e")
assert F10[:5] == H10 and len(F10) == 10 and RH.expected_valid(F10)
TOK = {"F": b"\x7e", "E": b"\x7d", "h7": H7, "t7": F7[5:], "h10": F10[:7], "i10": F10[7:], "x": b"\x01",
       "e5": b"\x5e"}
TOKN = tuple(TOK)


def frame_errors(f) -> list[str]:
    """Per-frame part of C01's oracle, evaluated on one returned HdlcFrame."""
    errs = []
    B = f.as_bytes
    exp = RH.expected_valid(B)
    v = f.is_valid
    if v is not exp:
        errs.append(f"valid: is_valid={v!r} but intact={exp} for frame {B.hex()}")
    if exp:
        fl = RH.frame_fields(B)
        if fl is None:
            errs.append(f"fields: reference cannot split valid frame {B.hex()}")
        else:
            h = f.header
            cp = fl["cp"]
            got = (h.destination_address, h.source_address, h.control, h.header_check_sequence,
                   f.frame_check_sequence, h.frame_length)
            want = (fl["dest"], fl["src"], B[cp], (B[cp + 1] << 8) | B[cp + 2], (B[-2] << 8) | B[-1], len(B))
            if got != want:
                errs.append(f"header: accessors {got!r} != octets {want!r} for frame {B.hex()}")
            p = f.payload
            ep = fl["payload"]
            if (p or b"") != (ep or b""):
                errs.append(f"payload: {p!r} != information field {ep!r} of frame {B.hex()}")
    return errs


def exec_errors(cfg, S: bytes, chunks):
    """C01 oracle over one execution: per-frame checks and containment.  Returns (errors, frames)."""
    frames, _ = feed(cfg, chunks)
    errs = []
    for f in frames:
        errs += [(e.split(":", 1)[0], e) for e in frame_errors(f)]
    fb = [f.as_bytes for f in frames]
    if not RH.contained(S, fb, cfg[0]):
        errs.append(("containment", "containment: returned frames " + " ".join(x.hex() for x in fb) +
                     " are not disjoint in-order inter-flag segments of the input"))
    return errs, frames


# ---- realistic frame pool (E3 base streams) ------------------------------------------------------------------

def frame_pool():
    """name -> un-stuffed frame octets.  Includes deliberately broken ones (wrong length, bad FCS)."""
    ramp = bytes(range(256))
    big_info = (ramp * 8)[:2047 - 9]  # 2038 octets: total 2047 with 1-octet addresses
    pool = {
        "hdr_only": RH.build_frame(0xA, 0, b"\x01", b"\x21", 0x13),
        "short": RH.build_frame(0xA, 0, b"\x01", b"\x21", 0x13, bytes.fromhex("e6e7000f40")),
        "flagesc": RH.build_frame(0xA, 0, b"\x01", b"\x21", 0x13, bytes.fromhex("7e107d7d5e7e")),
        "addr24": RH.build_frame(0xA, 0, b"\x02\x23", b"\x00\x02\xfe\xff", 0x13, b"\x55\xaa"),
        "segbit": RH.build_frame(0x7, 1, b"\x07", b"\x07", 0x01, b"\x00"),
        "wronglen": RH.build_frame(0xA, 0, b"\x01", b"\x21", 0x13, b"\x11\x22\x33", length=11),
        "badfcs": RH.build_frame(0xA, 0, b"\x01", b"\x21", 0x13, b"\x11\x22\x33", bad_fcs=True),
        "max2047": RH.build_frame(0xA, 0, b"\x01", b"\x21", 0x13, big_info),
    }
    assert len(pool["max2047"]) == 2047 and RH.expected_valid(pool["max2047"])
    return pool


def single_cuts(n: int):
    yield ()
    for i in range(1, n):
        yield (i,)


def pair_cuts(n: int):
    for i in range(1, n):
        for j in range(i + 1, n):
            yield (i, j)


def strings(alpha, n: int, first=None):
    """All strings of length n over alpha (optionally with a fixed first symbol)."""
    if first is None:
        return itertools.product(alpha, repeat=n)
    return ((first,) + t for t in itertools.product(alpha, repeat=n - 1))


_SWEEP = None


def fcs_sweep_frames():
    """Short valid frames such that every octet value 0..255 occurs as the last FCS octet, as the first FCS octet, and
    as each HCS octet of some frame (value-dependent handling of check-sequence octets, e.g. an FCS ending in 7D or 7E,
    would show on these).  Found by brute force over a 2-octet information field; [(label, frame), ...]."""
    global _SWEEP
    if _SWEEP is not None:
        return _SWEEP
    need = {(pos, v) for pos in ("fcs_hi", "fcs_lo", "hcs_hi", "hcs_lo") for v in range(256)}
    out = []
    for ctl in range(256):
        if not need:
            break
        for a in range(256):
            fr = RH.build_frame(0xA, 0, b"\x01", b"\x21", ctl, bytes((a, (a * 7 + ctl) & 0xFF)))
            got = {("fcs_hi", fr[-1]), ("fcs_lo", fr[-2]), ("hcs_hi", fr[7]), ("hcs_lo", fr[6])}
            hit = got & need
            if hit:
                need -= hit
                out.append(("sweep:" + ",".join(f"{p}={v:02x}" for p, v in sorted(hit)), fr))
    assert not need, sorted(need)[:5]
    # whole check sequences with 'special' 16-bit values (0000 is falsy, FFFF, flag/escape pairs): search by brute force
    targets = {0x0000, 0xFFFF, 0x7E7E, 0x7D7D, 0x7D7E, 0x7E7D, 0x0001, 0x0100}
    from mc.ref.fcs import fcs16_fast
    left = set(targets)
    for a in range(1 << 21):  # header check sequence: search over destination address (2 octets) x control
        if not left:
            break
        dest = bytes(((a >> 7) & 0xFE, ((a << 1) & 0xFF) | 1))
        ctl = (a >> 15) & 0xFF
        head = bytes((0xA0, 0x0E)) + dest + b"\x21" + bytes((ctl,))
        f = fcs16_fast(head)
        val = ((f & 0xFF) << 8) | (f >> 8)  # as the accessor reads it: first transmitted octet is the high byte
        if val in left:
            fr = RH.build_frame(0xA, 0, dest, b"\x21", ctl, b"\xe6\xe7\x00\x0f")
            assert len(fr) == 14 and ((fr[6] << 8) | fr[7]) == val and RH.expected_valid(fr)
            left.discard(val)
            out.append((f"sweep:hcs={val:04x}", fr))
    assert not left, left
    left = set(targets)
    for a in range(1 << 18):
        if not left:
            break
        fr = RH.build_frame(0xA, 0, b"\x01", b"\x21", 0x13, bytes((a >> 16, (a >> 8) & 0xFF, a & 0xFF)))
        val = (fr[-2] << 8) | fr[-1]
        if val in left:
            left.discard(val)
            out.append((f"sweep:fcs={val:04x}", fr))
    assert not left, left
    _SWEEP = out
    return out


def midsize_streams(stuffing: bool):
    """Frames of 100-300 octets whose information field holds flag/escape octets at spread positions, followed by a short
    frame: long enough for chunk-size thresholds (fast paths for 'large' chunks) to matter.  [(label, stream), ...]"""
    pool = frame_pool()
    out = []
    for n, marks in ((120, (3, 40, 41, 90, 119)), (300, (0, 100, 170, 171, 299))):
        info = bytearray((i * 13 + 5) % 0x7C + 1 for i in range(n))
        for k, m in enumerate(marks):
            info[m] = 0x7D if k % 2 == 0 else 0x7E
        fr = RH.build_frame(0xA, 0, b"\x01", b"\x21", 0x13, bytes(info))
        out.append((f"mid{n}+short", b"\x7e" + RH.wire(fr, stuffing) + b"\x7e" + RH.wire(pool["short"], stuffing) + b"\x7e"))
    return out


def escape_aligned_cuts(S: bytes, limit: int = 12):
    """Pairs of cuts (i, j): i right after / before an escape or flag octet, j = i + d for chunk sizes d around powers of two."""
    marks = [k for k, b in enumerate(S) if b in (0x7D, 0x7E)][:limit]
    ds = (1, 2, 31, 32, 33, 63, 64, 65, 127, 128, 129, 255, 256, 257, 511, 512, 513, 1000, 1024)
    seen = set()
    for m in marks:
        for i in (m, m + 1):
            for d in ds:
                j = i + d
                if 0 < i < j < len(S) and (i, j) not in seen:
                    seen.add((i, j))
                    yield (i, j)


def feed_variants(make, chunks, observe_one, twin_stream: bytes = b""):
    """The same chunk list fed in ways that must not matter: plain bytes; bytearray objects that the caller wipes right
    after each call (a reader must not keep a reference to the caller's buffer); with empty chunks in between; and with a
    twin instance fed a different stream in alternation (no state may be shared between instances).  Observations are
    taken both when the messages are returned and again at the end (a returned message must not change afterwards).
    Yields (variant name, observation at return time, observation at the end)."""
    POISON_H = (b"\x7e\xa0\x0a\x01\x02\x01\x10\x13\x7d", b"\x7e")  # leaves the twin inside a frame whose last octet is 7D / at a flag
    POISON_P = (b"/XYZ5twin\r\n1-0:1.8.0(1", b")\r\n!")  # leaves the twin inside a readout / right after an end character

    def run(feeder_name):
        r = make()
        twin = make() if feeder_name.endswith("-twin") or feeder_name.startswith("poison-twin") else None
        poison = None
        if feeder_name.startswith("poison-twin"):
            poison = POISON_P if type(r).__name__ == "ModeDReader" else POISON_H
            twin.read(poison[int(feeder_name[-1])])
        reused = bytearray()
        tpos = [0]
        msgs, early = [], []
        for i, c in enumerate(chunks):
            if feeder_name == "deepcopy-fork" and i == len(chunks) // 2:
                import copy

                try:
                    r = copy.deepcopy(r)  # continue on a deep copy: no state may live outside the instance
                except Exception:  # noqa: BLE001  (being copyable is not part of any property)
                    pass
            if feeder_name == "bytearray-wiped":
                buf = bytearray(c)
                got = r.read(buf)
                if bytes(buf) != bytes(c):
                    raise AssertionError(f"read() modified the caller's chunk object: {bytes(buf)!r:.60} was {bytes(c)!r:.60}")
                for k in range(len(buf)):
                    buf[k] = 0x7E if k % 2 else 0x2F
            elif feeder_name == "bytearray-reused":
                reused[:] = c  # one receive buffer, refilled for every call (what a serial or socket loop does)
                got = r.read(reused)
                if bytes(reused) != bytes(c):
                    raise AssertionError(f"read() modified the caller's chunk object: {bytes(reused)!r:.60} was {bytes(c)!r:.60}")
            else:
                got = r.read(c)
            if feeder_name == "empty-chunks" and i % 2 == 0:
                got = got + r.read(b"")
            if poison is not None:
                twin.read(poison[(i + 1 + int(feeder_name[-1])) % 2])
            elif twin is not None:
                if twin_stream:  # the twin receives well-formed traffic of its own, a slice per step
                    k = (tpos[0] % len(twin_stream))
                    twin.read((twin_stream + twin_stream)[k:k + len(c) + 1])
                    tpos[0] += len(c) + 1
                else:
                    twin.read(bytes(reversed(c)) + b"\x7e\x7d/\n!")
            if feeder_name == "stalled-link":
                from mc import vclock

                vclock.advance(7.0 if i % 3 else 3700.0)  # seconds / an hour pass between two read() calls
            early += [observe_one(m) for m in got]
            msgs += got
        return tuple(early), tuple(observe_one(m) for m in msgs)
    for name in ("plain", "bytearray-wiped", "bytearray-reused", "empty-chunks", "interleaved-twin", "poison-twin-0", "poison-twin-1", "stalled-link", "deepcopy-fork"):
        e, f = run(name)
        yield name, e, f
