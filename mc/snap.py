"""Canonical snapshot of an object graph (DESIGN 3.1).  Nothing is abstracted away: two objects with
equal snapshots agree on every attribute reachable through __dict__, hence have identical futures."""
from __future__ import annotations

import enum
import hashlib

_ATOM = (int, bool, str, bytes, float, type(None))


def snap(o, memo=None):
    if isinstance(o, _ATOM):
        return o
    if isinstance(o, bytearray):
        return ("ba", bytes(o))
    if isinstance(o, (list, tuple)):
        if memo is None:
            memo = {}
        return tuple(snap(x, memo) for x in o)
    if isinstance(o, enum.Enum):
        return ("enum", type(o).__name__, o.name)
    if memo is None:
        memo = {}
    if isinstance(o, dict):
        return ("dict",) + tuple(sorted((repr(snap(k, memo)), snap(v, memo)) for k, v in o.items()))
    if isinstance(o, (set, frozenset)):
        return ("set",) + tuple(sorted(repr(snap(x, memo)) for x in o))
    i = id(o)
    if i in memo:
        return ("ref", memo[i])
    memo[i] = len(memo)
    d = getattr(o, "__dict__", None)
    if d is None:
        slots = []
        for cls in type(o).__mro__:
            slots.extend(getattr(cls, "__slots__", ()))
        if slots:
            return (type(o).__name__,) + tuple(
                (k, snap(getattr(o, k, None), memo)) for k in sorted(set(slots)))
        return ("opaque", type(o).__name__, repr(o))
    return (type(o).__name__,) + tuple((k, snap(v, memo)) for k, v in sorted(d.items()))


def digest(o) -> bytes:
    """16-byte digest of the canonical snapshot."""
    return hashlib.blake2b(repr(snap(o)).encode(), digest_size=16).digest()


def sdigest(s) -> bytes:
    return hashlib.blake2b(repr(s).encode(), digest_size=16).digest()


def deep_size(o) -> int:
    """Sum of sys.getsizeof over everything reachable from o (C19's measure)."""
    import sys

    seen = set()
    tot = 0
    stack = [o]
    while stack:
        x = stack.pop()
        if id(x) in seen:
            continue
        seen.add(id(x))
        tot += sys.getsizeof(x)
        d = getattr(x, "__dict__", None)
        if d is not None:
            stack.append(d)
        if isinstance(x, dict):
            stack.extend(x.keys())
            stack.extend(x.values())
        elif isinstance(x, (list, tuple, set, frozenset)):
            stack.extend(x)
        else:
            for cls in type(x).__mro__:
                for k in getattr(cls, "__slots__", ()):
                    if hasattr(x, k):
                        stack.append(getattr(x, k))
    return tot
